"""Core of the nun-db static checker: fact loading, CFG, dominators, def-use / origin
tracing, closures, format templates, call graph.  Pure python3, no third-party modules.

Everything here works on the JSON facts written by engine/driver (MIR at mir-opt-level 0 of
the lib `nundb` and the bin `nun_db`).  Nothing executes nun-db code.
"""
import json, os, sys, hashlib, subprocess, time, fcntl, shutil, glob

VERIF = os.path.dirname(os.path.dirname(os.path.dirname(os.path.abspath(__file__))))
REPO = os.environ.get('NL_REPO', '/repo')
CACHE = os.path.join(VERIF, '.cache')
DRIVER = os.path.join(VERIF, 'engine', 'driver', 'target', 'release', 'nl-driver')

PROFILES = {
    'dev': '',
    # release-like: no overflow asserts, no debug assertions (changes the Assert set)
    'rel': '-C overflow-checks=off -C debug-assertions=off',
}


# --------------------------------------------------------------------------------------
# extraction
# --------------------------------------------------------------------------------------

def _tree_hash(repo):
    h = hashlib.sha256()
    files = []
    for root, dirs, fs in os.walk(repo):
        dirs[:] = sorted(d for d in dirs if d not in ('target', '.git', 'node_modules'))
        for f in sorted(fs):
            p = os.path.join(root, f)
            rel = os.path.relpath(p, repo)
            if rel.startswith('src' + os.sep) or rel in ('Cargo.toml', 'Cargo.lock', 'build.rs') \
                    or rel.startswith('.cargo' + os.sep):
                files.append((rel, p))
    for rel, p in files:
        h.update(rel.encode())
        h.update(b'\0')
        try:
            with open(p, 'rb') as fh:
                h.update(fh.read())
        except OSError:
            h.update(b'<unreadable>')
        h.update(b'\0')
    try:
        with open(DRIVER, 'rb') as fh:
            h.update(hashlib.sha256(fh.read()).digest())
    except OSError:
        pass
    return h.hexdigest()[:20], len(files)


def sysroot():
    return subprocess.check_output(['rustc', '+nightly', '--print', 'sysroot'], text=True).strip()


def ensure_driver():
    if os.path.exists(DRIVER):
        return
    env = dict(os.environ, CARGO_NET_OFFLINE='true')
    subprocess.check_call(['cargo', 'build', '--release', '--offline'],
                          cwd=os.path.join(VERIF, 'engine', 'driver'), env=env,
                          stdout=subprocess.DEVNULL, stderr=subprocess.DEVNULL)


def extract(profile='dev', repo=None, quiet=True):
    """Run the driver over repo's current working tree (cached by content hash of the
    sources + driver).  Returns (facts_dir, info)."""
    repo = repo or REPO
    ensure_driver()
    os.makedirs(CACHE, exist_ok=True)
    t0 = time.time()
    thash, nfiles = _tree_hash(repo)
    out = os.path.join(CACHE, 'facts', '%s-%s' % (thash, profile))
    info = {'tree_hash': thash, 'source_files_hashed': nfiles, 'profile': profile, 'cached': True}
    lockf = open(os.path.join(CACHE, 'lock'), 'w')
    fcntl.flock(lockf, fcntl.LOCK_EX)
    try:
        ok = all(os.path.exists(os.path.join(out, n)) for n in ('nundb.json', 'nun_db.json', 'DONE'))
        if not ok:
            info['cached'] = False
            shutil.rmtree(out, ignore_errors=True)
            os.makedirs(out)
            tgt = os.path.join(CACHE, 'target')
            # cargo's freshness cache would skip the wrapper: drop the member fingerprints
            for fp in glob.glob(os.path.join(tgt, 'debug', '.fingerprint', 'nun-db-*')):
                shutil.rmtree(fp, ignore_errors=True)
            env = dict(os.environ)
            env.update({
                'LD_LIBRARY_PATH': sysroot() + '/lib',
                'RUSTFLAGS': '-Zmir-opt-level=0 -Awarnings',
                'RUSTC_WORKSPACE_WRAPPER': DRIVER,
                'NL_OUT': out,
                'NL_EXTRA_FLAGS': PROFILES[profile],
                'CARGO_TARGET_DIR': tgt,
                'CARGO_NET_OFFLINE': 'true',
            })
            p = subprocess.run(['cargo', '+nightly', 'check', '--offline', '--lib', '--bins'],
                               cwd=repo, env=env, stdout=subprocess.PIPE, stderr=subprocess.STDOUT,
                               text=True)
            if p.returncode != 0 or not all(
                    os.path.exists(os.path.join(out, n)) for n in ('nundb.json', 'nun_db.json')):
                shutil.rmtree(out, ignore_errors=True)
                raise ExtractError('cargo check with the fact extractor failed (the tree does '
                                   'not compile, or the driver was skipped):\n' + p.stdout[-4000:])
            open(os.path.join(out, 'DONE'), 'w').write(thash)
            # bounded cache (≈9 MB per set): the mutants, seeds and benign variants of one base tree hash to the same keys on every
            # run, so a second thorough run of a property re-uses their facts instead of re-running the driver
            ents = sorted(glob.glob(os.path.join(CACHE, 'facts', '*')), key=os.path.getmtime)
            for e in ents[:-1200]:
                shutil.rmtree(e, ignore_errors=True)
        else:
            os.utime(out, None)
    finally:
        fcntl.flock(lockf, fcntl.LOCK_UN)
        lockf.close()
    info['extract_s'] = round(time.time() - t0, 2)
    return out, info


class ExtractError(Exception):
    pass


# --------------------------------------------------------------------------------------
# program model
# --------------------------------------------------------------------------------------

class Body:
    __slots__ = ('d', 'id', 'kind', 'parent', 'file', 'line', 'end_line', 'argc', 'blocks',
                 'locals', 'vars', 'crate', '_succ', '_pred', '_dom', '_pdom', '_defs',
                 '_reach', 'public', 'promoted', '_names')

    def __init__(self, d, crate):
        self.d = d
        self.id = d['id']
        self.kind = d['kind']
        self.parent = d.get('parent')
        self.file = d['file']
        self.line = d['line']
        self.end_line = d['end_line']
        self.argc = d['argc']
        self.blocks = d['blocks']
        self.locals = d['locals']
        self.vars = d['vars']
        self.public = d.get('public', False)
        self.promoted = d.get('promoted', False)
        self.crate = crate
        self._succ = self._pred = self._dom = self._pdom = self._defs = self._reach = None
        self._names = None

    # ---- CFG (normal edges only; cleanup blocks are never entered) ----
    def term(self, bi):
        return self.blocks[bi]['t']

    def succ(self, bi):
        if self._succ is None:
            self._build_cfg()
        return self._succ[bi]

    def pred(self, bi):
        if self._succ is None:
            self._build_cfg()
        return self._pred[bi]

    def _build_cfg(self):
        n = len(self.blocks)
        S = [[] for _ in range(n)]
        for i, b in enumerate(self.blocks):
            t = b['t']
            k = t['k']
            if b['cleanup']:
                continue
            if k == 'goto':
                S[i] = [t['t']]
            elif k == 'switch':
                seen = []
                for _, tb in t['targets']:
                    if tb not in seen:
                        seen.append(tb)
                if t['else'] not in seen:
                    seen.append(t['else'])
                S[i] = seen
            elif k in ('call',):
                S[i] = [t['t']] if t['t'] is not None else []
            elif k in ('drop', 'assert'):
                S[i] = [t['t']]
            elif k == 'yield':
                S[i] = [t['t']]
            else:
                S[i] = []
        # drop edges into blocks whose only content is `unreachable`
        P = [[] for _ in range(n)]
        for i, ss in enumerate(S):
            for s in ss:
                P[s].append(i)
        self._succ, self._pred = S, P

    def roots(self):
        """entry block(s).  For a coroutine resume function the entry switch on the state
        makes every resume point a root of its own region; block 0 reaches them all."""
        return [0]

    def reachable(self):
        if self._reach is None:
            seen = set()
            st = [0]
            while st:
                b = st.pop()
                if b in seen:
                    continue
                seen.add(b)
                st.extend(self.succ(b))
            self._reach = seen
        return self._reach

    def return_blocks(self):
        return [i for i in self.reachable() if self.blocks[i]['t']['k'] == 'return']

    def dom(self):
        """dom[b] = set of blocks dominating b (including b), over normal edges from bb0"""
        if self._dom is None:
            self._dom = _dominators(sorted(self.reachable()), [0], self.pred)
        return self._dom

    def pdom(self):
        """post-dominators w.r.t. normal return blocks (virtual exit)"""
        if self._pdom is None:
            nodes = sorted(self.reachable())
            exits = self.return_blocks()
            # only nodes that can reach a return participate
            can = set()
            st = list(exits)
            while st:
                b = st.pop()
                if b in can:
                    continue
                can.add(b)
                st.extend(p for p in self.pred(b) if p in self.reachable())
            nodes = [x for x in nodes if x in can]
            self._pdom = _dominators(nodes, exits, lambda b: [s for s in self.succ(b) if s in can])
        return self._pdom

    def dominates(self, a, b):
        return a in self.dom().get(b, ())

    def postdominates(self, a, b):
        return a in self.pdom().get(b, ())

    def reach_from(self, starts, stop=None, include_start=False):
        """blocks reachable from the successors of `starts` (or from starts themselves if
        include_start) without passing through a block for which stop(b) is true."""
        seen = set()
        st = []
        for s in starts:
            if include_start:
                st.append(s)
            else:
                st.extend(self.succ(s))
        while st:
            b = st.pop()
            if b in seen:
                continue
            seen.add(b)
            if stop and stop(b):
                continue
            st.extend(self.succ(b))
        return seen

    # ---- definitions ----
    def defs(self):
        """local -> list of (bi, si, kind, payload); kind in assign|call|yieldresume.
        Only whole-local definitions (no projection)."""
        if self._defs is None:
            D = {}
            for bi, b in enumerate(self.blocks):
                if b['cleanup']:
                    continue
                for si, s in enumerate(b['s']):
                    if s['k'] == 'assign':
                        l = s['l']
                        if not l.get('p'):
                            D.setdefault(l['l'], []).append((bi, si, 'assign', s['r']))
                        else:
                            D.setdefault(('partial', l['l']), []).append((bi, si, 'assign', s))
                t = b['t']
                if t['k'] == 'call':
                    l = t['d']
                    if not l.get('p'):
                        D.setdefault(l['l'], []).append((bi, len(b['s']), 'call', t))
                    else:
                        D.setdefault(('partial', l['l']), []).append((bi, len(b['s']), 'call', t))
            self._defs = D
        return self._defs

    def calls(self, include_cleanup=False):
        for bi, b in enumerate(self.blocks):
            if b['cleanup'] and not include_cleanup:
                continue
            t = b['t']
            if t['k'] == 'call':
                yield bi, t

    def var_name(self, local):
        if self._names is None:
            self._names = {}
            for v in self.vars:
                p = v['p']
                if not p.get('p'):
                    self._names.setdefault(p['l'], v['name'])
        return self._names.get(local)

    def loc(self, bi):
        t = self.blocks[bi]['t']
        if 'file' in t:
            return '%s:%s' % (t['file'], t['line'])
        return '%s:%s' % (self.file, self.line)


def _dominators(nodes, entries, predf):
    nodeset = set(nodes)
    full = set(nodes)
    dom = {n: set(full) for n in nodes}
    for e in entries:
        if e in dom:
            dom[e] = {e}
    changed = True
    order = list(nodes)
    entries = set(entries)
    while changed:
        changed = False
        for n in order:
            if n in entries:
                continue
            ps = [p for p in predf(n) if p in nodeset]
            if not ps:
                new = {n}
            else:
                new = None
                for p in ps:
                    new = set(dom[p]) if new is None else (new & dom[p])
                new.add(n)
            if new != dom[n]:
                dom[n] = new
                changed = True
    return dom


def callee(t):
    """best name of a call terminator's callee: resolved def path, else declared def path"""
    f = t['f']
    if f.get('ind'):
        return '<indirect>'
    return f.get('res') or f['def']


_norm_memo = {}


def norm(name):
    """strip generic parameter lists: `HashMap::<K, V, S, A>::get` -> `HashMap::get`,
    `Option::<T>::unwrap` -> `Option::unwrap`, `std::str::<impl str>::trim` -> `std::str::trim`"""
    r = _norm_memo.get(name)
    if r is not None:
        return r
    out = []
    depth = 0
    i = 0
    n = len(name)
    while i < n:
        c = name[i]
        if depth == 0 and name.startswith('::<', i):
            depth = 1
            i += 3
            continue
        if depth > 0:
            if c == '<':
                depth += 1
            elif c == '>' and name[i - 1] != '-':
                depth -= 1
            i += 1
            continue
        out.append(c)
        i += 1
    r = ''.join(out)
    if r.startswith('core::'):
        r = 'std::' + r[6:]
    elif r.startswith('alloc::'):
        r = 'std::' + r[7:]
    _norm_memo[name] = r
    return r


def callee_decl(t):
    """declared callee path with generic parameter lists stripped"""
    f = t['f']
    if f.get('ind'):
        return '<indirect>'
    return norm(f['def'])


def is_log(t):
    """call/assert that only exists inside a log::* macro expansion"""
    for m in t.get('macros', ()):
        if m.startswith('log::'):
            return True
    return False


class Prog:
    def __init__(self, facts_dir, normalise=True):
        self.bodies = {}
        self.adts = {}
        self.n_calls = 0
        self.crates = []
        texts = []
        for fn in ('nundb.json', 'nun_db.json'):
            with open(os.path.join(facts_dir, fn)) as fh:
                texts.append(fh.read())
        # rename normalisation (symbols.py): types, variants, fields and functions of the reference tree
        # that are missing here are matched structurally against the ones the reference does not know
        self.renamed = []
        if normalise:
            from . import symbols
            parsed, self.renamed = symbols.normalise(texts)
        else:
            parsed = [json.loads(x) for x in texts]
        for d in parsed:
            self.crates.append(d['crate'])
            self.n_calls += d['n_calls']
            for b in d['bodies']:
                self.bodies[b['id']] = Body(b, d['crate'])
            self.adts.update(d['adts'])
        self._callers = None
        self._closure_sites = None

    def body(self, name):
        return self.bodies.get(name)

    def find(self, suffix):
        """bodies whose id ends with `suffix` at a path-segment boundary (non-promoted)"""
        out = []
        for k, b in self.bodies.items():
            if b.promoted:
                continue
            if k == suffix or k.endswith('::' + suffix):
                out.append(b)
        return out

    def one(self, suffix):
        r = self.find(suffix)
        if len(r) != 1:
            raise AnchorError('anchor %r: expected exactly one body, found %d' % (suffix, len(r)))
        return r[0]

    def user_bodies(self):
        # a helper that inline.py spliced into every one of its call sites lives on in its callers: rules that sweep all bodies judge
        # the code there (the body itself stays in self.bodies for look-ups by name)
        if getattr(self, '_spliced', None) is None:
            self._spliced = {r.get('tree') for r in (getattr(self, 'renamed', None) or []) if r.get('kind') == 'inlined-helper'}
        return [b for b in self.bodies.values() if not b.promoted and b.id not in self._spliced]

    def callers(self):
        """callee id -> list of (Body, bi)"""
        if self._callers is None:
            C = {}
            for b in self.user_bodies():
                for bi, t in b.calls():
                    C.setdefault(callee(t), []).append((b, bi))
            self._callers = C
        return self._callers

    def family(self, body):
        """the named function a body belongs to (closures / coroutines stripped)"""
        return body.id.split('::{closure')[0]

    def private_helpers(self, body, depth=3):
        """user functions reached from `body` (or the closures nested in its function) whose every caller lies in the same
        unit: code that an "extract function" refactoring moved out of body.  Returned as a list of bodies, body excluded."""
        fam = self.family(body)
        unit = {fam}
        out = []
        frontier = [b for b in self.user_bodies() if self.family(b) == fam]
        C = self.callers()
        for _ in range(depth):
            nxt = []
            for b in frontier:
                for bi, t in b.calls():
                    cb = self.bodies.get(callee(t))
                    if cb is None or t['f'].get('ind') or cb.promoted:
                        continue
                    f2 = self.family(cb)
                    if f2 in unit:
                        continue
                    cs = C.get(cb.id, [])
                    if cs and all(self.family(x) in unit for x, _ in cs):
                        unit.add(f2)
                        members = [x for x in self.user_bodies() if self.family(x) == f2]
                        out += members
                        nxt += members
            frontier = nxt
            if not frontier:
                break
        return out

    def closure_sites(self):
        """closure def id -> (creator Body, bi, si, ops)"""
        if self._closure_sites is None:
            C = {}
            A = {}
            # a helper that inline.py spliced into its caller stays in the program: its closures are then created twice, in the helper
            # and in the spliced copy — the copy (where the rules look) is preferred
            spliced = {r.get('tree') for r in (getattr(self, 'renamed', None) or []) if r.get('kind') == 'inlined-helper'}
            for b in self.user_bodies():
                for bi, bl in enumerate(b.blocks):
                    if bl['cleanup']:
                        continue
                    for si, s in enumerate(bl['s']):
                        if s['k'] == 'assign' and s['r']['k'] == 'agg' and s['r'].get('ak') in (
                                'closure', 'coroutine', 'coroutineclosure'):
                            site = (b, bi, si, s['r']['ops'])
                            A.setdefault(s['r']['def'], []).append(site)
                            if s['r']['def'] not in C or C[s['r']['def']][0].id in spliced:
                                C[s['r']['def']] = site
            self._closure_sites = C
            self._closure_sites_all = A
        return self._closure_sites

    def closure_site_in(self, cdef, body_id):
        """the creation site of closure cdef inside body body_id (a spliced helper's closure has one site per copy), else the default one"""
        self.closure_sites()
        for site in self._closure_sites_all.get(cdef, []):
            if site[0].id == body_id:
                return site
        return self._closure_sites.get(cdef)

    def variant_of_discr(self, adt, val):
        a = self.adts.get(adt)
        if not a:
            return None
        for v in a['variants']:
            if str(v['discr']) == str(val):
                return v['name']
        return None


class AnchorError(Exception):
    pass


# --------------------------------------------------------------------------------------
# origin tracing (intraprocedural, flow-insensitive over MIR temporaries)
# --------------------------------------------------------------------------------------

# callee (declared path) prefixes through which the *value identity* of arg0 is preserved
LOOK_THROUGH = frozenset((
    'std::borrow::Borrow::borrow',
    'std::borrow::ToOwned::to_owned',
    'std::boxed::Box::new',
    'std::clone::Clone::clone',
    'std::convert::AsRef::as_ref',
    'std::convert::From::from',
    'std::convert::Into::into',
    'std::hint::must_use',
    'std::iter::IntoIterator::into_iter',
    'std::ops::Deref::deref',
    'std::ops::DerefMut::deref_mut',
    'std::ops::Try::branch',
    'std::option::Option::as_deref',
    'std::option::Option::ok_or',
    'std::option::Option::ok_or_else',
    'std::result::Result::map_err',
    'std::result::Result::ok',
    'std::option::Option::as_ref',
    'std::option::Option::cloned',
    'std::option::Option::copied',
    'std::option::Option::expect',
    'std::option::Option::unwrap',
    'std::option::Option::unwrap_or',
    'std::result::Result::expect',
    'std::result::Result::unwrap',
    'std::str::as_bytes',
    'std::str::to_owned',
    'std::str::to_string',
    'std::string::String::as_bytes',
    'std::string::String::as_str',
    'std::string::String::clone',
    'std::string::ToString::to_string',
    'std::sync::Arc::new',
))


def _lt(decl, extra):
    if decl in LOOK_THROUGH or decl in extra:
        return True
    return False


class Root(tuple):
    """(kind, a, b, path) — kind: param|const|call|agg|closure|capture|static|unknown|discr|bin|cast"""
    pass


def _path_of(place):
    out = []
    for e in place.get('p', ()):
        if e[0] == '*':
            continue
        if e[0] == 'f':
            out.append(('f', e[1], e[3] or str(e[1]), e[2]))
        elif e[0] == 'd':
            out.append(('d', e[1]))
        elif e[0] in ('i', 'ci', 'ss'):
            out.append(('idx',))
        else:
            out.append(('o',))
    return tuple(out)


def origins(body, operand, extra_through=(), _seen=None, stop_at_calls=False):
    """Roots from which the value of `operand` ({'c'|'m': place} | {'k': const}) may
    originate, looking through copies/moves/refs/derefs/casts and LOOK_THROUGH calls.
    Returns a set of tuples:
      ('param', idx, path) ('const', json-string-of-const, path) ('call', bi, path)
      ('agg', bi, si, path) ('closure', def, path) ('capture', idx, path) ('unknown', why, path)
    `path` = projection path applied on top of the root (tuple of steps)."""
    if 'k' in operand:
        return {('const', json.dumps(operand['k'], sort_keys=True), ())}
    if 'rt' in operand:
        return {('unknown', 'runtime-check', ())}
    place = operand.get('c') or operand.get('m')
    return place_origins(body, place, extra_through, _seen, stop_at_calls)


def place_origins(body, place, extra_through=(), _seen=None, stop_at_calls=False):
    if _seen is None:
        _seen = set()
    path = _path_of(place)
    return _local_origins(body, place['l'], path, extra_through, _seen, stop_at_calls)


def _apply_path_to_agg(rv, path):
    """if path starts with a field step and rv is an aggregate, return (operand, rest)"""
    if not path:
        return None
    step = path[0]
    if rv.get('ak') in ('adt',):
        # possible leading downcast
        if step[0] == 'd':
            if rv.get('variant') != step[1]:
                return 'mismatch'
            path = path[1:]
            if not path:
                return None
            step = path[0]
        if step[0] == 'f':
            idx = step[1]
            # aggregates of enums list only the active variant's fields
            if idx < len(rv['ops']):
                return rv['ops'][idx], path[1:]
    elif rv.get('ak') in ('tuple', 'closure', 'coroutine'):
        if step[0] == 'f' and step[1] < len(rv['ops']):
            return rv['ops'][step[1]], path[1:]
    elif rv.get('ak') == 'array':
        if step[0] == 'idx':
            return [op for op in rv['ops']], path[1:]
    return None


def _local_origins(body, local, path, extra, seen, stop_at_calls):
    key = (local, path)
    if key in seen:
        return set()
    seen.add(key)
    out = set()
    # closure environment
    if local == 1 and body.kind in ('closure', 'coroutine') and path and path[0][0] == 'f' \
            and path[0][3].startswith('{closure}'):
        return {('capture', path[0][1], path[1:])}
    if 1 <= local <= body.argc:
        # parameters may also be reassigned, but that is rare; keep both
        out.add(('param', local, path))
    defs = body.defs().get(local, [])
    for (bi, si, kind, pl) in defs:
        if kind == 'assign':
            rv = pl
            k = rv['k']
            if k == 'use':
                o = rv['o']
                if 'k' in o:
                    out.add(('const', json.dumps(o['k'], sort_keys=True), path))
                elif 'rt' in o:
                    out.add(('unknown', 'rt', path))
                else:
                    p2 = o.get('c') or o.get('m')
                    out |= _local_origins(body, p2['l'], _path_of(p2) + path, extra, seen, stop_at_calls)
            elif k in ('ref', 'rawptr'):
                p2 = rv['p']
                out |= _local_origins(body, p2['l'], _path_of(p2) + path, extra, seen, stop_at_calls)
            elif k == 'cast':
                o = rv['o']
                if 'k' in o:
                    out.add(('const', json.dumps(o['k'], sort_keys=True), path))
                else:
                    p2 = o.get('c') or o.get('m')
                    out |= _local_origins(body, p2['l'], _path_of(p2) + path, extra, seen, stop_at_calls)
            elif k == 'agg':
                r = _apply_path_to_agg(rv, path)
                if r == 'mismatch':
                    continue
                if r is None:
                    if rv.get('ak') in ('closure', 'coroutine', 'coroutineclosure'):
                        out.add(('closure', rv['def'], path))
                    else:
                        out.add(('agg', bi, si, path))
                else:
                    ops, rest = r
                    if not isinstance(ops, list):
                        ops = [ops]
                    for op in ops:
                        if 'k' in op:
                            out.add(('const', json.dumps(op['k'], sort_keys=True), rest))
                        elif 'rt' in op:
                            out.add(('unknown', 'rt', rest))
                        else:
                            p2 = op.get('c') or op.get('m')
                            out |= _local_origins(body, p2['l'], _path_of(p2) + rest, extra, seen, stop_at_calls)
            elif k == 'discr':
                out.add(('discr', bi, si, path))
            elif k in ('bin', 'un'):
                out.add(('arith', bi, si, path))
            else:
                out.add(('unknown', k, path))
        elif kind == 'call':
            t = pl
            decl = callee_decl(t)
            if not stop_at_calls and _lt(decl, extra) and t['args']:
                a0 = t['args'][0]
                if 'k' in a0:
                    out.add(('const', json.dumps(a0['k'], sort_keys=True), path))
                else:
                    p2 = a0.get('c') or a0.get('m')
                    out |= _local_origins(body, p2['l'], _path_of(p2) + path, extra, seen, stop_at_calls)
            else:
                out.add(('call', bi, path))
    if not defs and not (1 <= local <= body.argc):
        if local == 0:
            out.add(('unknown', 'return-place', path))
        else:
            # written only through projections / &mut (e.g. buffers) or never
            out.add(('unknown', 'no-def', path))
    return out


def const_of(root):
    if root[0] != 'const':
        return None
    return json.loads(root[1])


def const_str(root):
    c = const_of(root)
    if c is None:
        return None
    v = c.get('v')
    if isinstance(v, dict) and 's' in v:
        return v['s']
    return None


def const_val(root):
    c = const_of(root)
    if c is None:
        return None
    v = c.get('v')
    if isinstance(v, dict):
        return v.get('s', v.get('b'))
    if v is None and 'refv' in c:
        return int(c['refv'])
    if isinstance(v, str):
        try:
            return int(v)
        except ValueError:
            return v
    return v


# --------------------------------------------------------------------------------------
# format templates
# --------------------------------------------------------------------------------------

def decode_template(raw):
    """raw: list of ints or str.  -> list of pieces: ('lit', str) | ('arg', index)"""
    if isinstance(raw, str):
        b = raw.encode('utf-8')
    else:
        b = bytes(raw)
    out = []
    i = 0
    nxt = 0
    while i < len(b):
        n = b[i]
        i += 1
        if n == 0:
            break
        if n < 0x80:
            out.append(('lit', b[i:i + n].decode('utf-8', 'replace')))
            i += n
        elif n == 0x80:
            ln = b[i] | (b[i + 1] << 8)
            i += 2
            out.append(('lit', b[i:i + ln].decode('utf-8', 'replace')))
            i += ln
        elif n == 0xC0:
            out.append(('arg', nxt))
            nxt += 1
        else:
            if n & 1:
                i += 4
            if n & 2:
                i += 2
            if n & 4:
                i += 2
            idx = nxt
            if n & 8:
                idx = b[i] | (b[i + 1] << 8)
                i += 2
            out.append(('arg', idx))
            nxt = idx + 1
    # merge adjacent literals
    merged = []
    for p in out:
        if merged and p[0] == 'lit' and merged[-1][0] == 'lit':
            merged[-1] = ('lit', merged[-1][1] + p[1])
        else:
            merged.append(p)
    return merged


class Fmt:
    """a format_args!/format! instance: pieces with, per placeholder, the argument operand
    (a place in `body`) and its formatted type"""

    def __init__(self, body, bi, pieces, args):
        self.body = body
        self.bi = bi          # block of the Arguments::new call
        self.pieces = pieces  # list of ('lit', s) | ('arg', operand, type, trait)
        self.args = args

    def text(self):
        return ''.join(p[1] if p[0] == 'lit' else '{%s}' % p[2] for p in self.pieces)

    def __repr__(self):
        return 'Fmt(%r)' % self.text()


def fmt_at(body, bi):
    """decode the fmt::Arguments built by the call at block bi (Arguments::new / from_str /
    new_const).  Returns Fmt or None."""
    t = body.term(bi)
    if t['k'] != 'call':
        return None
    name = callee_decl(t)
    if name.startswith('std::fmt::Arguments::'):
        short = name.split('::')[-1]
    else:
        return None
    if short in ('from_str', 'new_const'):
        for r in origins(body, t['args'][0]):
            s = const_str(r)
            if s is not None:
                return Fmt(body, bi, [('lit', s)], [])
        return None
    if short != 'new':
        return None
    tmpl = None
    for r in origins(body, t['args'][0]):
        v = const_val(r)
        if v is not None:
            tmpl = v
    if tmpl is None:
        return None
    pieces = decode_template(tmpl)
    # argument array
    arr_ops = None
    for r in origins(body, t['args'][1]):
        if r[0] == 'agg':
            rv = body.blocks[r[1]]['s'][r[2]]['r']
            if rv.get('ak') == 'array':
                arr_ops = rv['ops']
    args = []
    if arr_ops is not None:
        for op in arr_ops:
            info = None
            for r in origins(body, op, stop_at_calls=True):
                if r[0] == 'call':
                    ct = body.term(r[1])
                    cn = callee_decl(ct)
                    if cn.startswith("std::fmt::rt::Argument::new_"):
                        info = (ct['args'][0], ct['f'].get('t0', '?'), cn.split('::')[-1][4:])
            args.append(info)
    out = []
    for p in pieces:
        if p[0] == 'lit':
            out.append(p)
        else:
            a = args[p[1]] if p[1] < len(args) and args[p[1]] else (None, '?', '?')
            out.append(('arg', a[0], a[1], a[2]))
    return Fmt(body, bi, out, args)


def string_builders(body):
    """all places where a String / Arguments is produced from a format template in `body`:
    yields (bi_of_Arguments_new, Fmt)"""
    for bi, t in body.calls():
        n = callee_decl(t)
        if n.startswith('std::fmt::Arguments::') and n.split('::')[-1] in ('new', 'from_str', 'new_const'):
            f = fmt_at(body, bi)
            if f is not None:
                yield bi, f


def fmt_of_value(body, operand, _depth=0):
    """if the String/&str/Arguments value of `operand` is produced by a format template
    (format!, format_args!().to_string(), String::from(format!()), .to_string() of it …)
    return the list of Fmt it may come from, plus the list of other roots."""
    fmts, others = [], []
    for r in origins(body, operand):
        if r[0] == 'call':
            t = body.term(r[1])
            n = callee_decl(t)
            if n in ('std::fmt::format', 'std::fmt::format::format_inner') and t['args']:
                f2, o2 = fmt_of_value(body, t['args'][0], _depth + 1)
                fmts += f2
                others += o2
                continue
            if n.startswith('std::fmt::Arguments::'):
                f = fmt_at(body, r[1])
                if f is not None:
                    fmts.append(f)
                    continue
            others.append(r)
        else:
            others.append(r)
    return fmts, others


# --------------------------------------------------------------------------------------
# boolean results and the branches they control
# --------------------------------------------------------------------------------------

def derived_bools(body, local):
    """locals holding the value of bool `local` or its negation: {local: polarity}"""
    der = {local: True}
    changed = True
    while changed:
        changed = False
        for bi, b in enumerate(body.blocks):
            if b['cleanup']:
                continue
            for s in b['s']:
                if s['k'] != 'assign' or s['l'].get('p'):
                    continue
                r = s['r']
                src = None
                pol = True
                if r['k'] == 'use':
                    o = r['o']
                    p = o.get('c') or o.get('m')
                    if p and not p.get('p'):
                        src = p['l']
                elif r['k'] == 'un' and r['op'] == 'Not':
                    o = r['a']
                    p = o.get('c') or o.get('m')
                    if p and not p.get('p'):
                        src = p['l']
                        pol = False
                if src in der:
                    np_ = der[src] if pol else (not der[src])
                    if s['l']['l'] not in der:
                        der[s['l']['l']] = np_
                        changed = True
    return der


def bool_switches(body, call_bi=None, local=None):
    """switches controlled by the bool result of the call at block call_bi (or by `local`):
    list of (switch_bi, target_when_true, target_when_false)"""
    if local is None:
        d = body.term(call_bi)['d']
        if d.get('p'):
            return []
        local = d['l']
    der = derived_bools(body, local)
    out = []
    for bi in body.reachable():
        t = body.term(bi)
        if t['k'] != 'switch':
            continue
        o = t['o']
        p = o.get('c') or o.get('m')
        if not p or p.get('p') or p['l'] not in der:
            continue
        zero = [tb for v, tb in t['targets'] if str(v) == '0']
        if not zero:
            continue
        f_t, t_t = zero[0], t['else']
        if not der[p['l']]:
            f_t, t_t = t_t, f_t
        out.append((bi, t_t, f_t))
    return out


def reachable_without(body, removed_edges, start=0):
    """blocks reachable from `start` when the CFG edges in removed_edges {(from, to)} are cut"""
    seen = set()
    st = [start]
    while st:
        b = st.pop()
        if b in seen:
            continue
        seen.add(b)
        for s in body.succ(b):
            if (b, s) not in removed_edges:
                st.append(s)
    return seen


def enum_switches(body, local_or_call_bi, is_call=True):
    """switches on the discriminant of the value produced by call at block (or held by local):
    list of (switch_bi, {variant_discr: target}, else_target, adt)"""
    if is_call:
        d = body.term(local_or_call_bi)['d']
        if d.get('p'):
            return []
        base = d['l']
    else:
        base = local_or_call_bi
    # locals that alias base (moves/copies)
    alias = {base}
    changed = True
    while changed:
        changed = False
        for b in body.blocks:
            if b['cleanup']:
                continue
            for s in b['s']:
                if s['k'] == 'assign' and not s['l'].get('p') and s['r']['k'] == 'use':
                    o = s['r']['o']
                    p = o.get('c') or o.get('m')
                    if p and not p.get('p') and p['l'] in alias and s['l']['l'] not in alias:
                        alias.add(s['l']['l'])
                        changed = True
    discr_locals = {}
    for b in body.blocks:
        if b['cleanup']:
            continue
        for s in b['s']:
            if s['k'] == 'assign' and s['r']['k'] == 'discr':
                p = s['r']['p']
                if p['l'] in alias and not [e for e in p.get('p', ()) if e[0] != '*']:
                    discr_locals[s['l']['l']] = s['r']['adt']
    out = []
    for bi in body.reachable():
        t = body.term(bi)
        if t['k'] != 'switch':
            continue
        o = t['o']
        p = o.get('c') or o.get('m')
        if p and not p.get('p') and p['l'] in discr_locals:
            tm = {str(v): tb for v, tb in t['targets']}
            adt = discr_locals[p['l']]
            if adt in ('std::option::Option', 'std::result::Result'):
                # two variants (None/Some, Ok/Err = 0/1): the one not listed is the `otherwise` edge
                for v in ('0', '1'):
                    tm.setdefault(v, t['else'])
            out.append((bi, tm, t['else'], adt))
    return out


def is_atomic_bool_ty(ty):
    return 'AtomicBool' in ty or 'Atomic<bool>' in ty


def is_atomic_load(t):
    d = callee_decl(t)
    return d.startswith('std::sync::atomic::Atomic') and d.endswith('::load')


def enum_variants_of(body, operand, stop_at_calls=False):
    """variant names an operand of enum type may hold, from constants and unit aggregates"""
    out = set()
    for r in origins(body, operand, stop_at_calls=stop_at_calls):
        if r[0] == 'const':
            c = const_of(r)
            out.add(c.get('variant') or '?')
        elif r[0] == 'agg':
            rv = body.blocks[r[1]]['s'][r[2]]['r']
            out.add(rv.get('variant') or '?')
        else:
            out.add('?')
    return out


STR_TYS = ('std::string::String', '&std::string::String', '&str', '&mut std::string::String', "&'static str")


def is_str_ty(ty):
    """an owned or borrowed string (a parameter changed from String to &str is the same anchor)"""
    return ty in STR_TYS


def deep_field_roots(prog, body, operand, depth=0, _seen=None):
    """origins of `operand` followed UP the call chain: a parameter is replaced by the matching argument of every call site of the
    function, a capture of a closure / of the coroutine of an async fn by the operand it was built from in the parent.  Returns the
    set of (adt, field) pairs of named struct fields the value can come from (other roots are dropped)."""
    from .effects import last_named_field
    _seen = _seen if _seen is not None else set()
    out = set()
    if depth > 6:
        return out
    for r in origins(body, operand):
        lf = last_named_field(r[-1]) if r[-1] else None
        if lf:
            out.add((lf[0], lf[1]))
            continue
        if r[0] == 'param':
            key = (body.id, 'p', r[1])
            if key in _seen:
                continue
            _seen.add(key)
            for cb, cbi in prog.callers().get(body.id, []):
                t = cb.term(cbi)
                if r[1] - 1 < len(t['args']):
                    out |= deep_field_roots(prog, cb, t['args'][r[1] - 1], depth + 1, _seen)
        elif r[0] == 'capture':
            key = (body.id, 'c', r[1])
            if key in _seen:
                continue
            _seen.add(key)
            site = prog.closure_sites().get(body.id)
            if site is not None:
                pb, bi, si, ops = site
                if r[1] < len(ops):
                    out |= deep_field_roots(prog, pb, ops[r[1]], depth + 1, _seen)
    return out


def reach_tracking_bools(body, start, avoid=()):
    """blocks reachable from `start`, following the constant bool a path has just assigned: `_r = const true; goto join; join: switchInt(_r)`
    (the two exits of a spliced bool helper) continues only into the matching target.  Copies `_x = _r` carry the constant along."""
    seen = set()
    out = set()
    st = [(start, ())]
    while st:
        bi, env = st.pop()
        if (bi, env) in seen or len(seen) > 20000 or bi in avoid:
            continue
        seen.add((bi, env))
        out.add(bi)
        e = dict(env)
        for s in body.blocks[bi]['s']:
            if s['k'] != 'assign' or s['l'].get('p'):
                continue
            l = s['l']['l']
            rv = s['r']
            if rv['k'] == 'use' and 'k' in rv['o'] and isinstance(rv['o']['k'].get('v'), bool):
                e[l] = rv['o']['k']['v']
            elif rv['k'] == 'use' and ((rv['o'].get('c') or rv['o'].get('m') or {}).get('l') in e) and not (rv['o'].get('c') or rv['o'].get('m')).get('p'):
                e[l] = e[(rv['o'].get('c') or rv['o'].get('m'))['l']]
            elif rv['k'] == 'un' and rv.get('op') == 'Not' and ((rv['a'].get('c') or rv['a'].get('m') or {}).get('l') in e):
                e[l] = not e[(rv['a'].get('c') or rv['a'].get('m'))['l']]
            else:
                e.pop(l, None)
        t = body.term(bi)
        if t['k'] == 'call' and not (t.get('d') or {}).get('p') and t.get('d'):
            e.pop(t['d']['l'], None)
        nxt = body.succ(bi)
        if t['k'] == 'switch':
            p = t['o'].get('c') or t['o'].get('m')
            if p and not p.get('p') and p['l'] in e:
                val = e[p['l']]
                zero = [tb for v, tb in t['targets'] if str(v) == '0']
                if zero:
                    nxt = [t['else']] if val else [zero[0]]
        env2 = tuple(sorted(e.items()))
        for n in nxt:
            if not body.blocks[n].get('cleanup'):
                st.append((n, env2))
    return out
