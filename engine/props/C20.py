"""C20 — HTTP replies line up, entry by entry, with the commands that caused them.

Decides: (a) in the HTTP command loop every non-blank command pushes exactly one reply entry on every
path and a blank command pushes none; (b) a command answered with an error does not leave a queued
message behind: the sender side does not queue on an error path, or the HTTP loop discards what was
queued before it uses the error text; (c) no arm queues more than one message on the requester's
channel on one path; (d) the clean-up runs after the loop and the WebSocket handler processes each
';' separated part exactly once.
Does NOT decide notifications that reach the requester through its own watch (sender aliasing is a
run-time fact).
"""
from nl import core
from nl.core import origins, callee, callee_decl, is_log, bool_switches, const_str, enum_switches
from nl.model import short
from props.C07 import natural_loops

RULES = {
    'C20.f': 'the channel whose receiver is drained into the reply entries is created for the request being served: in the transport '
             'loop that accepts HTTP requests the channel constructor lies inside the loop (a channel that outlives a request carries a '
             'message queued after the last entry was collected — the end-of-request clean-up refusal — into the next request)',
    'C20.a': 'HTTP loop: exactly one push of a reply entry on every path of a non-blank command, none for a blank one',
    'C20.b': 'error xor queued message: every function that queues on the client channel and then returns Response::Error '
             'is compensated by the HTTP loop discarding queued messages on its error arms',
    'C20.c': 'at most one message is queued on the requester\'s channel on any path of a dispatcher arm',
    'C20.d': 'the HTTP clean-up post-dominates the loop; the WebSocket handler calls the request entry once per part',
    'C20.g': 'the connection count of an HTTP request is released when the request ends: the session-end rules of C17.a (every transport '
             'calls Client::left on every path, no exit around it, no try-lock on the way to the decrement), repeated for this property',
}


def http_loop(m):
    pr = m.reentry_names()
    out = []
    for b in m.prog.user_bodies():
        if b.kind == 'fn' and b.locals[0] == 'std::vec::Vec<std::string::String>' and any(callee(t) in pr for _, t in b.calls()):
            out.append(b)
    if len(out) != 1:
        raise core.AnchorError('HTTP command loop (fn … -> Vec<String> calling the request entry): found %d' % len(out))
    return out[0]


def path_counts(b, start, stops, counted, within=None):
    """(min, max) number of blocks of `counted` on paths from `start` to any block in `stops`
    (paths restricted to `within`; cycles are cut)"""
    memo = {}
    onstack = set()

    def go(x):
        if x in stops:
            return (0, 0)
        if x in memo:
            return memo[x]
        if x in onstack:
            return None
        onstack.add(x)
        c = 1 if x in counted else 0
        res = None
        for s in b.succ(x):
            if within is not None and s not in within and s not in stops:
                continue
            r = go(s)
            if r is None:
                continue
            r = (r[0] + c, r[1] + c)
            res = r if res is None else (min(res[0], r[0]), max(res[1], r[1]))
        onstack.discard(x)
        if res is not None:
            memo[x] = res
        return res
    return go(start)


DROPPERS = ('::dedup', '::dedup_by', '::dedup_by_key', '::retain', '::retain_mut', '::truncate', '::remove', '::swap_remove', '::pop', '::drain',
            '::clear', '::split_off', '::filter', '::filter_map', '::skip', '::take', '::step_by', '::skip_while', '::take_while', '::nth',
            '::unique', '::sort', '::sort_unstable', '::sort_by', '::reverse', '::rev')


_BLANK_TESTS = ('trim', 'trim_start', 'trim_end', 'is_empty', 'len', 'eq', 'ne', 'deref', 'not', 'as_ref', 'borrow')


def _only_drops_blanks(P, cb, c):
    """the predicate closure handed to the filter-like call at block c only tests emptiness (trim / is_empty / len / == "")"""
    for a in cb.term(c)['args']:
        for r in origins(cb, a):
            if r[0] == 'closure' and P.bodies.get(r[1]) is not None:
                kb = P.bodies[r[1]]
                return all(callee_decl(t).split('::')[-1] in _BLANK_TESTS for _, t in kb.calls())
    return False


def statements_untouched(ck, m):
    """C20.h — see RULES"""
    from nl import locks
    P = m.prog
    ck.rule('C20.h', 'the commands executed are the pieces of the body, all of them, in their order: between the split at `;` and the loop that runs '
                     'them the list is not shortened, filtered, de-duplicated or reordered (Vec::dedup / retain / truncate / remove / sort ..., '
                     'Iterator::filter / skip / take ...) — `increment k;increment k` is two commands and owes two entries')
    hb = http_loop(m)
    n = 0
    bad = []
    for cb, cbi in P.callers().get(hb.id, []):
        t = cb.term(cbi)
        # the argument that is the list of statements: a Vec<&str> / slice of &str
        for ai, a in enumerate(t['args']):
            p_ = a.get('m') or a.get('c')
            if not p_ or '&str' not in cb.locals[p_['l']] and 'str>' not in cb.locals[p_['l']]:
                continue
            n += 1
            calls_, _params = locks.backward_slice(cb, a, control=True)
            splits = [c for c in calls_ if callee_decl(cb.term(c)).split('::')[-1] in ('split', 'split_terminator') and 'str' in callee_decl(cb.term(c))]
            for c in sorted(calls_):
                d = callee_decl(cb.term(c))
                if d.endswith(DROPPERS) and not d.startswith(('core::str::', 'std::str::', 'std::string::')) and 'str>::' not in d:
                    if d.split('::')[-1] in ('filter', 'retain', 'retain_mut', 'skip_while', 'take_while') and _only_drops_blanks(P, cb, c):
                        continue      # dropping blank statements changes no entry: the loop pushes nothing for a blank one
                    bad.append('%s (%s)' % (d, cb.loc(c)))
            for c in splits:
                pats = [core.const_val(r) if r[0] == 'const' else None for a2 in cb.term(c)['args'][1:2] for r in origins(cb, a2)]
                if not pats or any(p_ not in (';', 59) for p_ in pats):
                    bad.append('the body is split at %s, not at `;` alone (%s): a value that contains the other separator is cut into statements' % (pats or 'a computed pattern', cb.loc(c)))
            if not splits:
                bad.append('the list handed to the loop does not come from a split of the body (%s)' % cb.loc(cbi))
    ck.ob('C20.h', short(hb.id), 'statements-untouched', n > 0 and not bad,
          'the list the loop runs is the split of the body, handed on as it is' if n > 0 and not bad else
          'the list of statements is changed before the loop runs it: %s — a statement is not executed and every later entry moves up' % sorted(set(bad)),
          '%s:%s' % (hb.file, hb.line))
    ck.floor('C20.h', n, 1, 'statement lists handed to the HTTP loop')


def run(ck, m):
    _run(ck, m)
    channel_rule(ck, m)
    statements_untouched(ck, m)
    from nl import alias as _alias20
    from props import C09 as _C09
    ck.rule('C20.i', 'a command that is refused changes nothing the later commands of the same body depend on (C09.c, repeated): the session selection '
                     '(database, user) is replaced only on a path where the token check answered true — a refused use-db that clears the user turns the '
                     'permission refusals of the following entries into values')
    _alias20.repeat(ck, m, 'C09', ('C09.c',), 'C20.i', runner=_C09.writers, key_filter=lambda k: 'selection' in k)
    # the HTTP request is a whole session: its end must give the connection back (C17.a's session-end rules, repeated here)
    from nl import report
    from props import C17
    tmp = report.Check('C17', 'quick', 0)
    try:
        C17.run(tmp, m)
    except Exception as e_:      # fail closed
        ck.undecided('C20.g', 'session-end', 'rules', 'C17.a could not be evaluated: %s' % e_)
    n_ = 0
    for o in tmp.obs:
        if o['key'].endswith((':give-back-never-skipped-on-contention', ':no-exit-around-session-end', ':session-end-gives-connection-back')):
            n_ += 1
            ck.ob('C20.g', o['key'].split(':')[1], o['key'].split(':', 2)[2], o['verdict'] == 'discharged', o['what'], o['loc'], verdict=o['verdict'])
    ck.floor('C20.g', n_, 3, 'session-end rules of C17.a')
    # ... and drop its subscriptions: the closing unwatch-all removes EVERY registration of the session (C03.e)
    from props import C03
    tmp3 = report.Check('C03', 'quick', 0)
    try:
        C03.run(tmp3, m)
    except Exception as e_:      # fail closed
        ck.undecided('C20.g', 'unwatch', 'rules', 'C03.e could not be evaluated: %s' % e_)
    n3 = 0
    for o in tmp3.obs:
        if o['rule'] == 'C03.e' and '<floor>' not in o['key']:
            n3 += 1
            ck.ob('C20.g', o['key'].split(':')[1], o['key'].split(':', 2)[2], o['verdict'] == 'discharged', o['what'], o['loc'], verdict=o['verdict'])
    ck.floor('C20.g', n3, 1, 'unwatch rules of C03.e')


def _run(ck, m):
    for k, v in RULES.items():
        ck.rule(k, v)
    P = m.prog
    hb = http_loop(m)
    fn = short(hb.id)
    pr = m.reentry_names()
    # ---- (a) ---------------------------------------------------------------------------
    loops = natural_loops(hb)
    calls_in_loop = [(h, body) for h, body in loops if any(hb.term(x)['k'] == 'call' and callee(hb.term(x)) in pr for x in body)]
    if len(calls_in_loop) != 1:
        ck.undecided('C20.a', fn, 'loop', 'expected one loop around the request entry, found %d' % len(calls_in_loop))
        return
    h, body = calls_in_loop[0]
    pushes = {x for x in body if hb.term(x)['k'] == 'call' and callee_decl(hb.term(x)) == 'std::vec::Vec::push'
              and hb.locals[(hb.term(x)['args'][1].get('m') or hb.term(x)['args'][1].get('c') or {'l': 0})['l']] == 'std::string::String'}
    call_bi = [x for x in body if hb.term(x)['k'] == 'call' and callee(hb.term(x)) in pr][0]
    cnt = path_counts(hb, call_bi, {h}, pushes, within=body)
    ck.ob('C20.a', fn, 'one-entry-per-command', cnt == (1, 1),
          'from the call of the request entry back to the loop head every path pushes exactly one entry' if cnt == (1, 1) else
          'paths through one command push between %s and %s entries' % (cnt or ('?', '?')), hb.loc(call_bi))
    # blank commands: the test `clean_command != ""` false edge reaches the loop head without push and without call
    okblank = False
    for bi, t in hb.calls():
        if bi in body and callee_decl(t) in ('std::cmp::PartialEq::ne', 'std::cmp::PartialEq::eq'):
            if any(const_str(r) == '' for a in t['args'] for r in origins(hb, a)):
                for (s2, tt, ft) in bool_switches(hb, bi):
                    blank_t = ft if callee_decl(t).endswith('::ne') else tt
                    c2 = path_counts(hb, blank_t, {h}, pushes | {call_bi}, within=body)
                    okblank = c2 == (0, 0)
    ck.ob('C20.a', fn, 'blank-pushes-nothing', okblank,
          'a blank statement neither runs a command nor pushes an entry' if okblank else 'blank statements are not skipped cleanly',
          '%s:%s' % (hb.file, hb.line))
    # commands are taken in order from the split: the loop iterates the slice parameter
    # ---- (b) ---------------------------------------------------------------------------
    ex = m.explorer()
    fx = m.fx()
    offenders = []
    for b in P.user_bodies():
        if b.kind not in ('fn', 'method') or b.locals[0] != 'nundb::bo::Response':
            continue
        if b.id.startswith(('nundb::client::', 'nundb::command_line::')):
            continue
        sends = []
        top = None
        for bi, t in b.calls():
            if is_log(t):
                continue
            n = callee(t)
            if n.endswith('bo::Client::send_message'):
                sends.append(bi)
            elif callee_decl(t).endswith('mpsc::Sender::try_send'):
                if top is None:
                    top = ex.top_frame(b)
                kinds = fx.chan_kind(top, t['args'][0])
                if 'client' in kinds or any(k.startswith('top') and 'sender' in k for k in kinds):
                    sends.append(bi)
        if not sends:
            continue
        errs = [bi for bi in b.reachable() for s in b.blocks[bi]['s']
                if s['k'] == 'assign' and s['r']['k'] == 'agg' and s['r'].get('variant') == 'Error' and s['r'].get('adt', '').endswith('bo::Response')]
        for sbi in sends:
            reach = b.reach_from([sbi]) | {sbi}
            hit = [e for e in errs if e in reach]
            if hit:
                offenders.append((b, sbi, hit[0]))
    # the HTTP loop compensates: on its Error / VersionError arms it drains the receiver before pushing
    drains = set()
    for bi, t in hb.calls():
        cb = P.bodies.get(callee(t))
        if cb is not None and any(callee_decl(t2).endswith(('mpsc::Receiver::try_next', 'mpsc::Receiver::try_recv')) for _, t2 in cb.calls()) \
                and natural_loops(cb):
            drains.add(bi)
        if callee_decl(t).endswith(('mpsc::Receiver::try_next', 'mpsc::Receiver::try_recv')):
            pass
    compensated = False
    why = 'no discard of queued messages on the error arms of the HTTP loop'
    resp = P.adts['nundb::bo::Response']
    err_discr = {str(v['discr']) for v in resp['variants'] if v['name'] in ('Error', 'VersionError')}
    for (s2, tm, els, adt) in enum_switches(hb, call_bi):
        arms = sorted({tm[k] for k in tm if k in err_discr})
        reach_any = set()
        for a in arms:
            reach_any |= hb.reach_from([a], stop=lambda q: q == h, include_start=True)
        if not any(x in pushes for x in reach_any):
            continue      # a drop ladder over the same value, not the match
        # on every path from an error arm to its push a discard of the queued messages comes first (reachability, so that arms
        # merged with an or-pattern or sharing a tail are judged the same way)
        okarms = []
        for a in arms:
            with_drain = hb.reach_from([a], stop=lambda q: q == h, include_start=True)
            no_drain = hb.reach_from([a], stop=lambda q: q == h or q in drains, include_start=True)
            ps = [x for x in pushes if x in with_drain]
            okarms.append(bool(ps) and a not in drains and not any(x in no_drain for x in ps) or (a in drains and bool(ps)))
        compensated = bool(arms) and all(okarms) and {k for k in tm if k in err_discr} == err_discr
        why = 'the error arms of the HTTP loop discard queued messages before pushing the error text' if compensated else \
            'error arms %d, each discards before its push: %s' % (len(arms), okarms)
    ck.ob('C20.b', fn, 'http-discards-on-error', compensated, why, hb.loc(call_bi))
    seen = set()
    for (b, sbi, e) in offenders:
        k = short(b.id)
        if k in seen:
            continue
        seen.add(k)
        ck.ob('C20.b', k, 'queues-then-errors', compensated,
              '%s queues a message on the client channel (%s) and returns Response::Error (%s); compensated by the HTTP loop\'s discard'
              % (k, b.loc(sbi), b.loc(e)) if compensated else
              '%s queues a message on the client channel (%s) and then returns Response::Error (%s): over HTTP the queued text becomes the '
              'entry of the next successful command' % (k, b.loc(sbi), b.loc(e)), b.loc(sbi))
    ck.floor('C20.b', len(seen), 3, 'functions that queue and then refuse')
    # ---- (c) ---------------------------------------------------------------------------
    from nl import wire, locks
    L = locks.LockModel(P)
    G = m.guards()
    memo = {}

    def weights(b):
        """block -> number of client messages queued by the call in that block (max over its paths)"""
        w = {}
        for bi, t in b.calls():
            if is_log(t):
                continue
            n = callee(t)
            d_ = callee_decl(t)
            if n.endswith('bo::Client::send_message'):
                w[bi] = w.get(bi, 0) + 1
                continue
            if d_.endswith('mpsc::Sender::try_send'):
                if 'client' in wire.channel_kinds(P, b, t['args'][0]):
                    w[bi] = w.get(bi, 0) + 1
                continue
            if n in pr:
                continue      # re-dispatch (rp): the inner command is judged as its own arm
            cb = P.bodies.get(n)
            if cb is not None and not t['f'].get('ind'):
                if n in G:
                    # a guard: its own refusal messages are error paths (judged by b); count the closure it invokes
                    pass
                else:
                    x = max_sends(cb)
                    if x:
                        w[bi] = w.get(bi, 0) + x
        for (cbi, csi, ccb) in L.closures_created(b):
            x = max_sends(ccb)
            if not x:
                continue
            for (ubi, ud) in L.closure_use_blocks(b, cbi, csi):
                w[ubi] = w.get(ubi, 0) + x
        # a send that sits on a loop is repeated: as many messages as the loop has turns (pages of a listing, …)
        for bi in list(w):
            if bi in b.reach_from([bi]):
                w[bi] = 99
        return w

    def max_sends(b):
        if b.id in memo:
            return memo[b.id]
        memo[b.id] = 0
        w = weights(b)
        if not w:
            return 0
        best = weighted_max(b, 0, w)
        memo[b.id] = best
        return best

    def weighted_max(b, start, w, within=None):
        seen = {}
        onstack = set()

        def go(x):
            if x in seen:
                return seen[x]
            if x in onstack:
                return 0
            onstack.add(x)
            best = 0
            for s_ in b.succ(x):
                if within is not None and s_ not in within:
                    continue
                best = max(best, go(s_))
            onstack.discard(x)
            seen[x] = best + w.get(x, 0)
            return seen[x]
        return go(start)
    d, sw = m.dispatcher()
    dw = weights(d)
    n = 0
    for variant in m.variants():
        if variant not in sw[1]:
            continue
        region = m.arm_region(d, sw, variant)
        if not any(x in dw for x in region):
            continue
        n += 1
        worst = weighted_max(d, sw[1][variant], dw, within=region)
        ck.ob('C20.c', 'dispatcher', '%s:at-most-one-client-message' % variant, worst <= 1,
              'arm %s queues at most one message for the requester on any path' % variant if worst <= 1 else
              'arm %s can queue %d messages for the requester on one path: the HTTP entries after it shift' % (variant, worst),
              d.loc(sw[1][variant]))
    ck.floor('C20.c', n, 10, 'arms that queue a message for the requester')
    # ---- (d) ---------------------------------------------------------------------------
    unw = [bi for bi, t in hb.calls() if callee(t) in pr and any(const_str(r) == 'unwatch-all' for r in origins(hb, t['args'][0]))]
    okd = bool(unw) and all(x not in body for x in unw) and all(hb.postdominates(x, 0) for x in unw)
    ck.ob('C20.d', fn, 'cleanup-after-loop', okd, 'unwatch-all runs once, after the loop, on every path' if okd else
          'the HTTP clean-up is inside the loop or can be skipped', hb.loc(unw[0]) if unw else '')
    ws = [b for b in P.user_bodies() if '::Handler>::on_message' in b.id and '{closure' in b.id and any(callee(t) in pr for _, t in b.calls())]
    okw = False
    if len(ws) == 1:
        wb = ws[0]
        calls = [bi for bi, t in wb.calls() if callee(t) in pr]
        inloop = any(bi in body2 for h2, body2 in natural_loops(wb) for bi in calls)
        okw = len(calls) == 1 and not inloop and wb.postdominates(calls[0], 0)
    ck.ob('C20.d', short(ws[0].id) if ws else 'ws', 'one-dispatch-per-part', okw,
          'the WebSocket handler runs each part through the request entry exactly once' if okw else
          'WebSocket per-part closure: found %d' % len(ws), '')
    # ... and the parts are consumed to the end: the closure is driven by an exhaustive consumer, no short-circuiting adaptor or
    # consumer stands between the split and it (`.map(..).all(..)` stops at the first refused command, the rest of the frame is dropped)
    if len(ws) == 1:
        pid = ws[0].id.rsplit('::{closure', 1)[0]
        pb = P.bodies.get(pid)
        SHORT = ('all', 'any', 'find', 'find_map', 'position', 'rposition', 'try_for_each', 'try_fold', 'take_while', 'map_while', 'take',
                 'nth', 'skip_while', 'step_by', 'skip', 'filter', 'scan')
        FULL = ('for_each', 'collect', 'count', 'fold', 'last', 'sum', 'product', 'unzip', 'partition', 'reduce')
        if pb is not None:
            its = [(bi, callee_decl(t).split('::')[-1]) for bi, t in pb.calls() if callee_decl(t).startswith(('std::iter::Iterator::', 'std::iter::DoubleEndedIterator::'))]
            short_ = [(n_, pb.loc(bi)) for bi, n_ in its if n_ in SHORT]
            full_ = [n_ for bi, n_ in its if n_ in FULL]
            loops_ = [1 for h2, body2 in natural_loops(pb) if any(callee(pb.term(x)) == ws[0].id or callee_decl(pb.term(x)).endswith('FnMut::call_mut') for x in body2 if pb.term(x)['k'] == 'call')]
            oke = not short_ and (bool(full_) or bool(loops_))
            ck.ob('C20.d', short(pb.id), 'every-part-consumed', oke,
                  'the parts of a frame are driven to the end by %s' % (full_ or 'a loop') if oke else
                  'the per-part closure is driven through %s: the iteration stops early (at the first refused command, for `map(..).all(..)`), '
                  'the remaining commands of the frame are silently not executed' % (short_ or 'no exhaustive consumer'), '%s:%s' % (pb.file, pb.line))
        else:
            ck.undecided('C20.d', 'ws', 'every-part-consumed', 'parent of the per-part closure not found')



def channel_rule(ck, m):
    P = m.prog
    from props.C07 import natural_loops
    hb = http_loop(m)
    n = 0
    for b in P.user_bodies():
        if b.id.startswith(('nundb::client::', 'nundb::command_line::')):
            continue
        accepts = [bi for bi, t in b.calls() if callee_decl(t) == 'tiny_http::Server::recv']
        uses = [bi for bi, t in b.calls() if callee(t) == hb.id]
        if not accepts or not uses:
            continue
        loops = natural_loops(b)
        for a in accepts:
            inloops = [body for h, body in loops if a in body]
            if not inloops:
                continue
            body = min(inloops, key=len)
            n += 1
            # channel constructors reachable in this body: direct calls in the loop, or none (created outside and captured)
            ctors = [bi for bi, t in b.calls() if callee_decl(t).endswith('mpsc::channel') or 'new_empty_and_receiver' in callee(t)]
            inside = [x for x in ctors if x in body]
            # the receiver argument handed to the command loop
            okc = False
            why = 'no channel constructor in the transport loop: the receiver handed to the command loop is captured from outside'
            for u in uses:
                for arg in b.term(u)['args']:
                    ty = b.locals[(arg.get('m') or arg.get('c') or {'l': 0})['l']] if (arg.get('m') or arg.get('c')) else ''
                    if 'Receiver' not in ty:
                        continue
                    roots = origins(b, arg, stop_at_calls=True) | origins(b, arg)
                    if any(r[0] == 'call' and r[1] in inside for r in roots):
                        okc = True
                        why = 'the reply channel is created inside the loop that serves one request'
                    elif any(r[0] in ('capture', 'param') for r in roots):
                        why = 'the receiver handed to the command loop comes from outside the request loop (captured by the worker closure)'
            ck.ob('C20.f', short(b.id), 'reply-channel-per-request', okc, why if okc else
                  why + ': the refusal queued by the end-of-request `unwatch-all` of a session without a selected database stays in the channel '
                  'and becomes the first entry of the next request served by the same worker, shifting every later entry', b.loc(a))
    ck.floor('C20.f', n, 1, 'HTTP accept loops')
