"""Repeat the verdict of another property's rule under a property that depends on it (the clause is the same structural fact; the
seeded changes showed that a breakage of it is a breakage of both properties).  The source check is evaluated in a scratch Check,
fail-closed: if it cannot be evaluated, or yields fewer obligations than `floor`, the repeating rule is undecided."""
import importlib
from . import report


def repeat(ck, m, src_pid, src_rules, dst_rule, floor=1, key_filter=None, runner=None):
    mod = importlib.import_module('props.' + src_pid)
    tmp = report.Check(src_pid, 'quick', 0)
    try:
        (runner or mod.run)(tmp, m)
    except Exception as e:      # fail closed
        ck.undecided(dst_rule, src_pid, 'rules', '%s could not be evaluated: %s' % (src_rules, e))
    n = 0
    for o in tmp.obs:
        if o['rule'] not in src_rules or '<floor>' in o['key']:
            continue
        if key_filter and not key_filter(o['key']):
            continue
        n += 1
        parts = o['key'].split(':', 2)
        ck.ob(dst_rule, parts[1], parts[2] if len(parts) > 2 else 'rule', o['verdict'] == 'discharged', o['what'], o['loc'], verdict=o['verdict'])
    ck.floor(dst_rule, n, floor, 'obligations of %s repeated' % '/'.join(src_rules))
