// nl-driver: rustc_private fact extractor for the nun-db static checks.
//
// Used as RUSTC_WORKSPACE_WRAPPER: argv = [self, <real rustc>, rustc args...].
// For crates named in NL_CRATES (comma separated, default "nundb,nun_db") it dumps the
// type-checked program (MIR of every body, with resolved callees, decoded constants,
// ADT tables) as one JSON document into $NL_OUT/<crate>.json (one write per process).
// Every other crate is compiled exactly as rustc would.
#![feature(rustc_private)]
#![allow(clippy::all)]

extern crate rustc_abi;
extern crate rustc_driver;
extern crate rustc_hir;
extern crate rustc_interface;
extern crate rustc_middle;
extern crate rustc_span;

use rustc_driver::Compilation;
use rustc_hir::def::DefKind;
use rustc_hir::def_id::{DefId, LOCAL_CRATE};
use rustc_middle::mir::interpret::{GlobalAlloc, Scalar};
use rustc_middle::mir::{
    self, AggregateKind, BorrowKind, Const, ConstValue, Operand, Place, ProjectionElem,
    Rvalue, StatementKind, TerminatorKind, UnwindAction,
};
use rustc_middle::ty::print::{with_crate_prefix, with_no_trimmed_paths};
use rustc_middle::ty::{self, Instance, Ty, TyCtxt, TypingEnv};
use rustc_span::Span;
use std::collections::BTreeMap;
use std::fmt::Write as _;

fn esc(s: &str) -> String {
    let mut o = String::with_capacity(s.len() + 2);
    o.push('"');
    for c in s.chars() {
        match c {
            '"' => o.push_str("\\\""),
            '\\' => o.push_str("\\\\"),
            '\n' => o.push_str("\\n"),
            '\r' => o.push_str("\\r"),
            '\t' => o.push_str("\\t"),
            c if (c as u32) < 0x20 => {
                let _ = write!(o, "\\u{:04x}", c as u32);
            }
            c => o.push(c),
        }
    }
    o.push('"');
    o
}

struct Cx<'tcx> {
    tcx: TyCtxt<'tcx>,
    krate: String,
    adts: BTreeMap<String, String>,
}

impl<'tcx> Cx<'tcx> {
    fn fix(&self, s: String) -> String {
        // local items print as `crate::…` under with_crate_prefix
        if s.contains("crate::") || s == "crate" {
            s.replace("crate::", &format!("{}::", self.krate))
        } else {
            s
        }
    }
    fn path(&self, did: DefId) -> String {
        let s = with_crate_prefix!(with_no_trimmed_paths!(self.tcx.def_path_str(did)));
        self.fix(s)
    }
    fn path_args(&self, did: DefId, args: ty::GenericArgsRef<'tcx>) -> String {
        let s = with_crate_prefix!(with_no_trimmed_paths!(self
            .tcx
            .def_path_str_with_args(did, args)));
        self.fix(s)
    }
    fn ty(&self, t: Ty<'tcx>) -> String {
        let s = with_crate_prefix!(with_no_trimmed_paths!(format!("{}", t)));
        self.fix(s)
    }

    fn note_adt(&mut self, adt: ty::AdtDef<'tcx>) {
        let name = self.path(adt.did());
        if self.adts.contains_key(&name) {
            return;
        }
        self.adts.insert(name.clone(), String::new());
        let mut o = String::new();
        let kind = if adt.is_enum() {
            "enum"
        } else if adt.is_union() {
            "union"
        } else {
            "struct"
        };
        let _ = write!(o, "{{\"kind\":\"{}\",\"variants\":[", kind);
        let mut first = true;
        for (vi, v) in adt.variants().iter_enumerated() {
            if !first {
                o.push(',');
            }
            first = false;
            let discr = if adt.is_enum() {
                format!("{}", adt.discriminant_for_variant(self.tcx, vi).val)
            } else {
                "0".to_string()
            };
            let _ = write!(
                o,
                "{{\"name\":{},\"idx\":{},\"discr\":{},\"fields\":[",
                esc(v.name.as_str()),
                vi.as_u32(),
                esc(&discr)
            );
            let mut ff = true;
            for f in v.fields.iter() {
                if !ff {
                    o.push(',');
                }
                ff = false;
                let fty = self.tcx.type_of(f.did).instantiate_identity().skip_norm_wip();
                let _ = write!(
                    o,
                    "{{\"name\":{},\"ty\":{}}}",
                    esc(f.name.as_str()),
                    esc(&self.ty(fty))
                );
            }
            o.push_str("]}");
        }
        o.push_str("]}");
        self.adts.insert(name, o);
    }

    fn place(&mut self, body: &mir::Body<'tcx>, p: &Place<'tcx>) -> String {
        let mut o = String::new();
        let _ = write!(o, "{{\"l\":{}", p.local.as_u32());
        if !p.projection.is_empty() {
            o.push_str(",\"p\":[");
            let mut pty = mir::PlaceTy::from_ty(body.local_decls[p.local].ty);
            let mut first = true;
            for elem in p.projection.iter() {
                if !first {
                    o.push(',');
                }
                first = false;
                match elem {
                    ProjectionElem::Deref => o.push_str("[\"*\"]"),
                    ProjectionElem::Field(f, _) => {
                        let (mut an, mut fname) = (String::new(), String::new());
                        match pty.ty.kind() {
                            ty::Adt(adt, _) => {
                                self.note_adt(*adt);
                                an = self.path(adt.did());
                                let v = match pty.variant_index {
                                    Some(vi) => adt.variant(vi),
                                    None => adt.non_enum_variant(),
                                };
                                fname = v.fields[f].name.as_str().to_string();
                            }
                            ty::Closure(did, _) | ty::Coroutine(did, _) => {
                                an = format!("{{closure}}{}", self.path(*did));
                            }
                            ty::Tuple(_) => an = "()".to_string(),
                            _ => {}
                        }
                        let _ = write!(o, "[\"f\",{},{},{}]", f.as_u32(), esc(&an), esc(&fname));
                    }
                    ProjectionElem::Downcast(name, vi) => {
                        let n = name.map(|s| s.as_str().to_string()).unwrap_or_default();
                        let _ = write!(o, "[\"d\",{},{}]", esc(&n), vi.as_u32());
                    }
                    ProjectionElem::Index(l) => {
                        let _ = write!(o, "[\"i\",{}]", l.as_u32());
                    }
                    ProjectionElem::ConstantIndex { offset, from_end, .. } => {
                        let _ = write!(o, "[\"ci\",{},{}]", offset, from_end);
                    }
                    ProjectionElem::Subslice { from, to, from_end } => {
                        let _ = write!(o, "[\"ss\",{},{},{}]", from, to, from_end);
                    }
                    _ => o.push_str("[\"o\"]"),
                }
                pty = pty.projection_ty(self.tcx, elem);
            }
            let _ = write!(o, "],\"t\":{}", esc(&self.ty(pty.ty)));
        }
        o.push('}');
        o
    }

    fn bytes_of_alloc(&self, alloc_id: mir::interpret::AllocId, off: usize, len: usize) -> Option<Vec<u8>> {
        match self.tcx.global_alloc(alloc_id) {
            GlobalAlloc::Memory(a) => {
                let a = a.inner();
                if off + len > a.len() {
                    return None;
                }
                Some(a.inspect_with_uninit_and_ptr_outside_interpreter(off..off + len).to_vec())
            }
            GlobalAlloc::Static(did) => {
                let a = self.tcx.eval_static_initializer(did).ok()?;
                let a = a.inner();
                if off + len > a.len() {
                    return None;
                }
                Some(a.inspect_with_uninit_and_ptr_outside_interpreter(off..off + len).to_vec())
            }
            _ => None,
        }
    }

    fn bytes_json(b: &[u8]) -> String {
        match std::str::from_utf8(b) {
            Ok(s) => format!("{{\"s\":{}}}", esc(s)),
            Err(_) => {
                let mut o = String::from("{\"b\":[");
                for (i, x) in b.iter().enumerate() {
                    if i > 0 {
                        o.push(',');
                    }
                    let _ = write!(o, "{}", x);
                }
                o.push_str("]}");
                o
            }
        }
    }

    fn constant(&mut self, caller: DefId, c: &mir::ConstOperand<'tcx>) -> String {
        let tcx = self.tcx;
        let ty = c.const_.ty();
        let tys = self.ty(ty);
        let mut o = format!("{{\"ty\":{}", esc(&tys));
        if let ty::FnDef(did, args) = ty.kind() {
            let _ = write!(
                o,
                ",\"fn\":{},\"fnargs\":{}",
                esc(&self.path(*did)),
                esc(&self.path_args(*did, args))
            );
            o.push('}');
            return o;
        }
        if let ty::Closure(did, _) = ty.kind() {
            let _ = write!(o, ",\"closure\":{}", esc(&self.path(*did)));
            o.push('}');
            return o;
        }
        let tenv = TypingEnv::post_analysis(tcx, caller);
        let val: Option<ConstValue> = match c.const_ {
            Const::Val(v, _) => Some(v),
            _ => {
                if let Const::Unevaluated(uv, _) = c.const_ {
                    let _ = write!(o, ",\"item\":{}", esc(&self.path(uv.def)));
                    if uv.promoted.is_some() {
                        o.push_str(",\"promoted\":true");
                    }
                }
                c.const_.eval(tcx, tenv, c.span).ok()
            }
        };
        match val {
            None => o.push_str(",\"v\":null,\"uneval\":true"),
            Some(ConstValue::ZeroSized) => o.push_str(",\"zst\":true"),
            Some(ConstValue::Scalar(Scalar::Int(i))) => {
                let bits = i.to_bits(i.size());
                let signed = matches!(ty.kind(), ty::Int(_));
                let sv: String = if signed {
                    let sz = i.size().bits();
                    let v = if sz == 128 {
                        bits as i128
                    } else {
                        let shift = 128 - sz;
                        ((bits << shift) as i128) >> shift
                    };
                    format!("{}", v)
                } else {
                    format!("{}", bits)
                };
                if let ty::Adt(adt, _) = ty.kind() {
                    if adt.is_enum() {
                        self.note_adt(*adt);
                        let size = i.size().bytes() as usize;
                        let mask = if size >= 16 { u128::MAX } else { (1u128 << (8 * size)) - 1 };
                        for (vi, d) in adt.discriminants(tcx) {
                            if d.val & mask == bits & mask {
                                let _ = write!(
                                    o,
                                    ",\"enum\":{},\"variant\":{}",
                                    esc(&self.path(adt.did())),
                                    esc(adt.variant(vi).name.as_str())
                                );
                            }
                        }
                    }
                }
                match ty.kind() {
                    ty::Bool => {
                        let _ = write!(o, ",\"v\":{}", if bits != 0 { "true" } else { "false" });
                    }
                    ty::Char => {
                        let ch = char::from_u32(bits as u32).unwrap_or('?');
                        let _ = write!(o, ",\"v\":{}", esc(&ch.to_string()));
                    }
                    _ => {
                        // numbers as strings when they do not fit f64 exactly
                        if sv.len() <= 15 {
                            let _ = write!(o, ",\"v\":{}", sv);
                        } else {
                            let _ = write!(o, ",\"v\":{}", esc(&sv));
                        }
                    }
                }
            }
            Some(ConstValue::Scalar(Scalar::Ptr(ptr, _))) => {
                let (prov, off) = ptr.prov_and_relative_offset();
                let alloc_id = prov.alloc_id();
                // &[u8; N], &T where T is scalar-ish, &&str ...
                let mut done = false;
                let mut pending: Option<String> = None;
                if let ty::Ref(_, inner, _) = ty.kind() {
                    match inner.kind() {
                        ty::Array(et, n) if matches!(et.kind(), ty::Uint(ty::UintTy::U8)) => {
                            if let Some(n) = n.try_to_target_usize(tcx) {
                                if let Some(b) =
                                    self.bytes_of_alloc(alloc_id, off.bytes() as usize, n as usize)
                                {
                                    let _ = write!(o, ",\"v\":{}", Self::bytes_json(&b));
                                    done = true;
                                }
                            }
                        }
                        ty::Adt(adt, _) if adt.is_enum() => {
                            // promoted enum constants such as &ValueStatus::Deleted
                            self.note_adt(*adt);
                            if let Ok(layout) = tcx.layout_of(tenv.as_query_input(*inner)) {
                                let size = layout.size.bytes() as usize;
                                if size > 0 && size <= 16 {
                                    if let Some(b) =
                                        self.bytes_of_alloc(alloc_id, off.bytes() as usize, size)
                                    {
                                        let fieldless = adt.variants().iter().all(|v| v.fields.is_empty());
                                        if fieldless {
                                            let mut bits: u128 = 0;
                                            for (i, x) in b.iter().enumerate() {
                                                bits |= (*x as u128) << (8 * i);
                                            }
                                            for (vi, d) in adt.discriminants(tcx) {
                                                let mask = if size >= 16 { u128::MAX } else { (1u128 << (8 * size)) - 1 };
                                                if d.val & mask == bits {
                                                    let _ = write!(
                                                        o,
                                                        ",\"enum\":{},\"variant\":{}",
                                                        esc(&self.path(adt.did())),
                                                        esc(adt.variant(vi).name.as_str())
                                                    );
                                                    done = true;
                                                }
                                            }
                                        }
                                    }
                                }
                            }
                        }
                        ty::Int(_) | ty::Uint(_) | ty::Bool => {
                            if let Ok(layout) = tcx.layout_of(tenv.as_query_input(*inner)) {
                                let size = layout.size.bytes() as usize;
                                if let Some(b) = self.bytes_of_alloc(alloc_id, off.bytes() as usize, size) {
                                    let mut bits: u128 = 0;
                                    for (i, x) in b.iter().enumerate() {
                                        bits |= (*x as u128) << (8 * i);
                                    }
                                    let sv = if matches!(inner.kind(), ty::Int(_)) && size < 16 {
                                        let shift = 128 - 8 * size as u32;
                                        format!("{}", ((bits << shift) as i128) >> shift)
                                    } else {
                                        format!("{}", bits)
                                    };
                                    let _ = write!(o, ",\"refv\":{}", esc(&sv));
                                    done = true;
                                }
                            }
                        }
                        ty::Ref(_, i2, _) if i2.is_str() => {
                            // &&str: the allocation holds a (ptr, len) pair; ptr is a relocation
                            if let GlobalAlloc::Memory(a) = tcx.global_alloc(alloc_id) {
                                let a = a.inner();
                                let o = off.bytes() as usize;
                                if o + 16 <= a.len() {
                                    let raw = a.inspect_with_uninit_and_ptr_outside_interpreter(o..o + 16);
                                    let mut addend: u64 = 0;
                                    let mut len: u64 = 0;
                                    for i in 0..8 {
                                        addend |= (raw[i] as u64) << (8 * i);
                                        len |= (raw[8 + i] as u64) << (8 * i);
                                    }
                                    if let Some(prov) = a.provenance().get_ptr(rustc_abi::Size::from_bytes(o as u64)) {
                                        if let Some(b) = self.bytes_of_alloc(prov.alloc_id(), addend as usize, len as usize) {
                                            pending = Some(Self::bytes_json(&b));
                                        }
                                    }
                                }
                            }
                        }
                        _ => {}
                    }
                }
                if let Some(pj) = pending {
                    let _ = write!(o, ",\"v\":{}", pj);
                    done = true;
                }
                if !done {
                    if let GlobalAlloc::Static(did) = tcx.global_alloc(alloc_id) {
                        let _ = write!(o, ",\"static\":{}", esc(&self.path(did)));
                    } else if let GlobalAlloc::Function { instance } = tcx.global_alloc(alloc_id) {
                        let _ = write!(o, ",\"fnptr\":{}", esc(&self.path(instance.def_id())));
                    } else {
                        o.push_str(",\"ptr\":true");
                    }
                }
            }
            Some(ConstValue::Slice { alloc_id, meta }) => {
                let is_bytes = match ty.kind() {
                    ty::Ref(_, inner, _) => inner.is_str() || matches!(inner.kind(), ty::Slice(t) if matches!(t.kind(), ty::Uint(ty::UintTy::U8))),
                    _ => false,
                };
                if is_bytes {
                    if let Some(b) = self.bytes_of_alloc(alloc_id, 0, meta as usize) {
                        let _ = write!(o, ",\"v\":{}", Self::bytes_json(&b));
                    }
                } else {
                    let _ = write!(o, ",\"slice_len\":{}", meta);
                }
            }
            Some(ConstValue::Indirect { alloc_id, offset }) => {
                // small by-value aggregates (e.g. fieldless enum constants, [u8;N])
                if let Ok(layout) = tcx.layout_of(tenv.as_query_input(ty)) {
                    let size = layout.size.bytes() as usize;
                    if size <= 64 {
                        if let Some(b) = self.bytes_of_alloc(alloc_id, offset.bytes() as usize, size) {
                            let _ = write!(o, ",\"raw\":{}", Self::bytes_json(&b));
                        }
                    }
                }
            }
        }
        o.push('}');
        o
    }

    fn operand(&mut self, caller: DefId, body: &mir::Body<'tcx>, op: &Operand<'tcx>) -> String {
        match op {
            Operand::Copy(p) => format!("{{\"c\":{}}}", self.place(body, p)),
            Operand::Move(p) => format!("{{\"m\":{}}}", self.place(body, p)),
            Operand::Constant(c) => format!("{{\"k\":{}}}", self.constant(caller, c)),
            _ => "{\"rt\":true}".to_string(),
        }
    }

    fn span_info(&self, sp: Span) -> String {
        // walk out of macro expansions, recording the macro names (innermost first)
        let mut macros: Vec<String> = Vec::new();
        let mut cur = sp;
        let mut guard = 0;
        while cur.from_expansion() && guard < 64 {
            let ed = cur.ctxt().outer_expn_data();
            let name = match ed.macro_def_id {
                Some(d) => self.path(d),
                None => format!("{:?}", ed.kind),
            };
            macros.push(name);
            cur = ed.call_site;
            guard += 1;
        }
        let sm = self.tcx.sess.source_map();
        let lo = sm.lookup_char_pos(cur.lo());
        let file = format!("{}", lo.file.name.prefer_local_unconditionally());
        let mut o = format!("\"file\":{},\"line\":{},\"col\":{}", esc(&file), lo.line, lo.col.0 + 1);
        if !macros.is_empty() {
            o.push_str(",\"macros\":[");
            for (i, m) in macros.iter().enumerate() {
                if i > 0 {
                    o.push(',');
                }
                o.push_str(&esc(m));
            }
            o.push(']');
        }
        o
    }

    fn rvalue(&mut self, caller: DefId, body: &mir::Body<'tcx>, rv: &Rvalue<'tcx>) -> String {
        match rv {
            Rvalue::Use(op, ..) => format!("{{\"k\":\"use\",\"o\":{}}}", self.operand(caller, body, op)),
            Rvalue::Ref(_, bk, p) => {
                let m = matches!(bk, BorrowKind::Mut { .. });
                let fake = matches!(bk, BorrowKind::Fake(_));
                format!(
                    "{{\"k\":\"ref\",\"p\":{},\"mut\":{},\"fake\":{}}}",
                    self.place(body, p),
                    m,
                    fake
                )
            }
            Rvalue::RawPtr(_, p) => format!("{{\"k\":\"rawptr\",\"p\":{}}}", self.place(body, p)),
            Rvalue::CopyForDeref(p) => format!("{{\"k\":\"use\",\"o\":{{\"c\":{}}},\"cfd\":true}}", self.place(body, p)),
            Rvalue::Cast(ck, op, t) => format!(
                "{{\"k\":\"cast\",\"ck\":{},\"o\":{},\"ty\":{}}}",
                esc(&format!("{:?}", ck)),
                self.operand(caller, body, op),
                esc(&self.ty(*t))
            ),
            Rvalue::BinaryOp(op, ab) => {
                let (a, b) = &**ab;
                format!(
                    "{{\"k\":\"bin\",\"op\":{},\"a\":{},\"b\":{}}}",
                    esc(&format!("{:?}", op)),
                    self.operand(caller, body, a),
                    self.operand(caller, body, b)
                )
            }
            Rvalue::UnaryOp(op, a) => format!(
                "{{\"k\":\"un\",\"op\":{},\"a\":{}}}",
                esc(&format!("{:?}", op)),
                self.operand(caller, body, a)
            ),
            Rvalue::Discriminant(p) => {
                let pty = p.ty(&body.local_decls, self.tcx).ty;
                let mut adt_name = String::new();
                if let ty::Adt(adt, _) = pty.kind() {
                    self.note_adt(*adt);
                    adt_name = self.path(adt.did());
                }
                format!(
                    "{{\"k\":\"discr\",\"p\":{},\"adt\":{}}}",
                    self.place(body, p),
                    esc(&adt_name)
                )
            }
            Rvalue::Aggregate(kind, ops) => {
                let mut o = String::from("{\"k\":\"agg\"");
                match &**kind {
                    AggregateKind::Array(_) => o.push_str(",\"ak\":\"array\""),
                    AggregateKind::Tuple => o.push_str(",\"ak\":\"tuple\""),
                    AggregateKind::Adt(did, vi, _, _, _) => {
                        let adt = self.tcx.adt_def(*did);
                        self.note_adt(adt);
                        let v = adt.variant(*vi);
                        let _ = write!(
                            o,
                            ",\"ak\":\"adt\",\"adt\":{},\"variant\":{},\"fields\":[",
                            esc(&self.path(*did)),
                            esc(v.name.as_str())
                        );
                        for (i, f) in v.fields.iter().enumerate() {
                            if i > 0 {
                                o.push(',');
                            }
                            o.push_str(&esc(f.name.as_str()));
                        }
                        o.push(']');
                    }
                    AggregateKind::Closure(did, _) => {
                        let _ = write!(o, ",\"ak\":\"closure\",\"def\":{}", esc(&self.path(*did)));
                    }
                    AggregateKind::Coroutine(did, _) => {
                        let _ = write!(o, ",\"ak\":\"coroutine\",\"def\":{}", esc(&self.path(*did)));
                    }
                    AggregateKind::CoroutineClosure(did, _) => {
                        let _ = write!(o, ",\"ak\":\"coroutineclosure\",\"def\":{}", esc(&self.path(*did)));
                    }
                    AggregateKind::RawPtr(..) => o.push_str(",\"ak\":\"rawptr\""),
                }
                o.push_str(",\"ops\":[");
                for (i, op) in ops.iter().enumerate() {
                    if i > 0 {
                        o.push(',');
                    }
                    o.push_str(&self.operand(caller, body, op));
                }
                o.push_str("]}");
                o
            }
            Rvalue::Repeat(op, _) => format!("{{\"k\":\"repeat\",\"o\":{}}}", self.operand(caller, body, op)),
            Rvalue::ThreadLocalRef(did) => format!("{{\"k\":\"tls\",\"def\":{}}}", esc(&self.path(*did))),
            other => format!("{{\"k\":\"other\",\"d\":{}}}", esc(&format!("{:?}", other))),
        }
    }

    fn callee(&mut self, caller: DefId, body: &mir::Body<'tcx>, func: &Operand<'tcx>) -> String {
        let tcx = self.tcx;
        let fty = func.ty(&body.local_decls, tcx);
        match fty.kind() {
            ty::FnDef(did, args) => {
                let mut o = format!(
                    "{{\"def\":{},\"dargs\":{}",
                    esc(&self.path(*did)),
                    esc(&self.path_args(*did, args))
                );
                let tenv = TypingEnv::post_analysis(tcx, caller);
                match Instance::try_resolve(tcx, tenv, *did, args) {
                    Ok(Some(inst)) => {
                        let rd = inst.def_id();
                        let ik = format!("{:?}", inst.def);
                        let ik = ik.split('(').next().unwrap_or("").to_string();
                        let _ = write!(
                            o,
                            ",\"res\":{},\"rargs\":{},\"ik\":{},\"local\":{}",
                            esc(&self.path(rd)),
                            esc(&self.path_args(rd, inst.args)),
                            esc(&ik),
                            rd.krate == LOCAL_CRATE
                        );
                        let _ = write!(o, ",\"rcrate\":{}", esc(tcx.crate_name(rd.krate).as_str()));
                    }
                    _ => o.push_str(",\"res\":null"),
                }
                // self type for trait / inherent methods
                if let Some(first) = args.types().next() {
                    let _ = write!(o, ",\"t0\":{}", esc(&self.ty(first)));
                }
                o.push('}');
                o
            }
            _ => format!(
                "{{\"ind\":true,\"ty\":{},\"op\":{}}}",
                esc(&self.ty(fty)),
                self.operand(caller, body, func)
            ),
        }
    }

    fn unwind(u: &UnwindAction) -> String {
        match u {
            UnwindAction::Cleanup(bb) => format!("{}", bb.as_u32()),
            _ => "null".to_string(),
        }
    }

    fn body(&mut self, did: DefId, body: &mir::Body<'tcx>, promoted: Option<u32>, stage: &str) -> String {
        let tcx = self.tcx;
        let mut o = String::new();
        let id = match promoted {
            None => self.path(did),
            Some(i) => format!("{}::{{promoted#{}}}", self.path(did), i),
        };
        let kind = if tcx.is_coroutine(did) {
            "coroutine"
        } else {
            match tcx.def_kind(did) {
                DefKind::Closure => "closure",
                DefKind::AssocFn => "method",
                DefKind::Fn => "fn",
                _ => "other",
            }
        };
        let _ = write!(o, "{{\"id\":{},\"kind\":\"{}\",\"stage\":\"{}\"", esc(&id), kind, stage);
        if promoted.is_some() {
            o.push_str(",\"promoted\":true");
        }
        if matches!(tcx.def_kind(did), DefKind::Closure) {
            let parent = tcx.parent(did);
            let _ = write!(o, ",\"parent\":{}", esc(&self.path(parent)));
        }
        let sm = tcx.sess.source_map();
        let lo = sm.lookup_char_pos(body.span.lo());
        let hi = sm.lookup_char_pos(body.span.hi());
        let _ = write!(
            o,
            ",\"file\":{},\"line\":{},\"end_line\":{},\"argc\":{}",
            esc(&format!("{}", lo.file.name.prefer_local_unconditionally())),
            lo.line,
            hi.line,
            body.arg_count
        );
        if matches!(tcx.def_kind(did), DefKind::Fn | DefKind::AssocFn) {
            let vis = tcx.visibility(did);
            let _ = write!(o, ",\"public\":{}", vis.is_public());
        }
        o.push_str(",\"locals\":[");
        for (i, d) in body.local_decls.iter().enumerate() {
            if i > 0 {
                o.push(',');
            }
            let _ = write!(o, "{}", esc(&self.ty(d.ty)));
        }
        o.push_str("],\"vars\":[");
        let mut first = true;
        for v in body.var_debug_info.iter() {
            if let mir::VarDebugInfoContents::Place(p) = &v.value {
                if !first {
                    o.push(',');
                }
                first = false;
                let _ = write!(o, "{{\"name\":{},\"p\":{}}}", esc(v.name.as_str()), self.place(body, p));
            }
        }
        o.push_str("],\"blocks\":[");
        for (bi, bb) in body.basic_blocks.iter_enumerated() {
            if bi.as_u32() > 0 {
                o.push(',');
            }
            let _ = write!(o, "{{\"cleanup\":{},\"s\":[", bb.is_cleanup);
            let mut sf = true;
            for st in bb.statements.iter() {
                let s = match &st.kind {
                    StatementKind::Assign(b) => {
                        let (p, rv) = &**b;
                        let line = sm.lookup_char_pos(st.source_info.span.source_callsite().lo()).line;
                        let inmacro = st.source_info.span.from_expansion();
                        Some(format!(
                            "{{\"k\":\"assign\",\"l\":{},\"r\":{},\"line\":{}{}}}",
                            self.place(body, p),
                            self.rvalue(did, body, rv),
                            line,
                            if inmacro { ",\"exp\":true" } else { "" }
                        ))
                    }
                    StatementKind::SetDiscriminant { place, variant_index } => Some(format!(
                        "{{\"k\":\"setdiscr\",\"l\":{},\"vi\":{}}}",
                        self.place(body, place),
                        variant_index.as_u32()
                    )),
                    StatementKind::StorageDead(l) => Some(format!("{{\"k\":\"dead\",\"l\":{}}}", l.as_u32())),
                    _ => None,
                };
                if let Some(s) = s {
                    if !sf {
                        o.push(',');
                    }
                    sf = false;
                    o.push_str(&s);
                }
            }
            o.push_str("],\"t\":");
            let term = bb.terminator();
            let si = self.span_info(term.source_info.span);
            let t = match &term.kind {
                TerminatorKind::Goto { target } => format!("{{\"k\":\"goto\",\"t\":{}}}", target.as_u32()),
                TerminatorKind::SwitchInt { discr, targets } => {
                    let mut s = format!("{{\"k\":\"switch\",\"o\":{},\"targets\":[", self.operand(did, body, discr));
                    for (i, (v, t)) in targets.iter().enumerate() {
                        if i > 0 {
                            s.push(',');
                        }
                        let _ = write!(s, "[{},{}]", esc(&format!("{}", v)), t.as_u32());
                    }
                    let _ = write!(s, "],\"else\":{},{}}}", targets.otherwise().as_u32(), si);
                    s
                }
                TerminatorKind::Return => "{\"k\":\"return\"}".to_string(),
                TerminatorKind::Unreachable => "{\"k\":\"unreachable\"}".to_string(),
                TerminatorKind::UnwindResume => "{\"k\":\"resume\"}".to_string(),
                TerminatorKind::UnwindTerminate(_) => "{\"k\":\"terminate\"}".to_string(),
                TerminatorKind::Drop { place, target, unwind, .. } => format!(
                    "{{\"k\":\"drop\",\"p\":{},\"t\":{},\"u\":{},{}}}",
                    self.place(body, place),
                    target.as_u32(),
                    Self::unwind(unwind),
                    si
                ),
                TerminatorKind::Call { func, args, destination, target, unwind, fn_span, .. } => {
                    let mut s = format!("{{\"k\":\"call\",\"f\":{},\"args\":[", self.callee(did, body, func));
                    for (i, a) in args.iter().enumerate() {
                        if i > 0 {
                            s.push(',');
                        }
                        s.push_str(&self.operand(did, body, &a.node));
                    }
                    let _ = write!(
                        s,
                        "],\"d\":{},\"t\":{},\"u\":{},{}",
                        self.place(body, destination),
                        target.map(|t| format!("{}", t.as_u32())).unwrap_or("null".to_string()),
                        Self::unwind(unwind),
                        si
                    );
                    let _ = fn_span;
                    s.push('}');
                    s
                }
                TerminatorKind::TailCall { func, .. } => {
                    format!("{{\"k\":\"tailcall\",\"f\":{},{}}}", self.callee(did, body, func), si)
                }
                TerminatorKind::Assert { cond, expected, msg, target, unwind } => {
                    let m = match &**msg {
                        mir::AssertKind::BoundsCheck { .. } => "BoundsCheck".to_string(),
                        mir::AssertKind::Overflow(op, ..) => format!("Overflow({:?})", op),
                        mir::AssertKind::OverflowNeg(_) => "OverflowNeg".to_string(),
                        mir::AssertKind::DivisionByZero(_) => "DivisionByZero".to_string(),
                        mir::AssertKind::RemainderByZero(_) => "RemainderByZero".to_string(),
                        mir::AssertKind::ResumedAfterReturn(_) => "ResumedAfterReturn".to_string(),
                        mir::AssertKind::ResumedAfterPanic(_) => "ResumedAfterPanic".to_string(),
                        mir::AssertKind::ResumedAfterDrop(_) => "ResumedAfterDrop".to_string(),
                        mir::AssertKind::MisalignedPointerDereference { .. } => "Misaligned".to_string(),
                        mir::AssertKind::NullPointerDereference => "NullPtr".to_string(),
                        mir::AssertKind::InvalidEnumConstruction(_) => "InvalidEnum".to_string(),
                    };
                    format!(
                        "{{\"k\":\"assert\",\"c\":{},\"exp\":{},\"msg\":{},\"t\":{},\"u\":{},{}}}",
                        self.operand(did, body, cond),
                        expected,
                        esc(&m),
                        target.as_u32(),
                        Self::unwind(unwind),
                        si
                    )
                }
                TerminatorKind::Yield { value, resume, drop, .. } => format!(
                    "{{\"k\":\"yield\",\"v\":{},\"t\":{},\"drop\":{}}}",
                    self.operand(did, body, value),
                    resume.as_u32(),
                    drop.map(|d| format!("{}", d.as_u32())).unwrap_or("null".to_string())
                ),
                TerminatorKind::CoroutineDrop => "{\"k\":\"coroutinedrop\"}".to_string(),
                TerminatorKind::FalseEdge { real_target, .. } => {
                    format!("{{\"k\":\"goto\",\"t\":{}}}", real_target.as_u32())
                }
                TerminatorKind::FalseUnwind { real_target, .. } => {
                    format!("{{\"k\":\"goto\",\"t\":{}}}", real_target.as_u32())
                }
                TerminatorKind::InlineAsm { .. } => "{\"k\":\"asm\"}".to_string(),
            };
            o.push_str(&t);
            o.push('}');
        }
        o.push_str("]}");
        o
    }
}

struct Cb {
    out_dir: String,
    // coroutine bodies dumped before the state-machine transform (from mir_built)
    built: Vec<(String, String)>,
    built_adts: BTreeMap<String, String>,
}

impl rustc_driver::Callbacks for Cb {
    fn after_expansion<'tcx>(
        &mut self,
        _c: &rustc_interface::interface::Compiler,
        tcx: TyCtxt<'tcx>,
    ) -> Compilation {
        let krate = tcx.crate_name(LOCAL_CRATE).as_str().to_string();
        let mut cx = Cx { tcx, krate, adts: BTreeMap::new() };
        let keys: Vec<_> = tcx.mir_keys(()).iter().copied().collect();
        // 1. clone every coroutine's freshly built MIR before any other query runs: evaluating a
        //    constant while serialising can trigger borrowck of a parent function, which steals
        //    the mir_built of its nested closures
        let mut clones: Vec<(DefId, mir::Body<'tcx>)> = Vec::new();
        for ldid in keys {
            let did = ldid.to_def_id();
            if !matches!(tcx.def_kind(did), DefKind::Closure) || !tcx.is_coroutine(did) {
                continue;
            }
            let steal = tcx.mir_built(ldid);
            if steal.is_stolen() {
                continue;
            }
            let body = steal.borrow().clone();
            clones.push((did, body));
        }
        // 2. serialise the clones
        for (did, body) in clones.iter() {
            let js = cx.body(*did, body, None, "built");
            self.built.push((cx.path(*did), js));
        }
        self.built_adts = cx.adts;
        Compilation::Continue
    }

    fn after_analysis<'tcx>(
        &mut self,
        _c: &rustc_interface::interface::Compiler,
        tcx: TyCtxt<'tcx>,
    ) -> Compilation {
        let krate = tcx.crate_name(LOCAL_CRATE).as_str().to_string();
        let mut cx = Cx { tcx, krate: krate.clone(), adts: std::mem::take(&mut self.built_adts) };
        let mut bodies: Vec<String> = Vec::new();
        let built: BTreeMap<String, String> = std::mem::take(&mut self.built).into_iter().collect();
        let mut n_calls = 0usize;
        let mut keys: Vec<_> = tcx.mir_keys(()).iter().copied().collect();
        keys.sort_by_key(|k| tcx.def_path_hash(k.to_def_id()));
        for ldid in keys {
            let did = ldid.to_def_id();
            let dk = tcx.def_kind(did);
            if !matches!(dk, DefKind::Fn | DefKind::AssocFn | DefKind::Closure) {
                continue;
            }
            // constructors of tuple structs etc. have no user body
            if !tcx.is_mir_available(did) {
                continue;
            }
            let body = tcx.optimized_mir(did);
            for bb in body.basic_blocks.iter() {
                if matches!(bb.terminator().kind, TerminatorKind::Call { .. }) {
                    n_calls += 1;
                }
            }
            let pid = cx.path(did);
            if let Some(js) = built.get(&pid) {
                // coroutine: keep the pre-transform body as the primary one
                bodies.push(js.clone());
            } else {
                bodies.push(cx.body(did, body, None, "optimized"));
            }
            // promoted constants hold e.g. `&[Argument; N]`-free data; dump them too
            let promoted = tcx.promoted_mir(did);
            for (pi, pb) in promoted.iter_enumerated() {
                bodies.push(cx.body(did, pb, Some(pi.as_u32()), "promoted"));
            }
        }
        let mut out = String::new();
        let _ = write!(
            out,
            "{{\"crate\":{},\"n_bodies\":{},\"n_calls\":{},\"bodies\":[\n",
            esc(&krate),
            bodies.len(),
            n_calls
        );
        out.push_str(&bodies.join(",\n"));
        out.push_str("\n],\"adts\":{");
        let mut first = true;
        for (k, v) in cx.adts.iter() {
            if v.is_empty() {
                continue;
            }
            if !first {
                out.push_str(",\n");
            }
            first = false;
            let _ = write!(out, "{}:{}", esc(k), v);
        }
        out.push_str("}}\n");
        let path = format!("{}/{}.json", self.out_dir, krate);
        let tmp = format!("{}.tmp{}", path, std::process::id());
        std::fs::write(&tmp, out).expect("write facts");
        std::fs::rename(&tmp, &path).expect("rename facts");
        Compilation::Continue
    }
}

struct Plain;
impl rustc_driver::Callbacks for Plain {}

fn main() {
    let mut args: Vec<String> = std::env::args().collect();
    // RUSTC_WORKSPACE_WRAPPER: argv[1] is the path of the real rustc
    if args.len() > 1 && (args[1].ends_with("rustc") || args[1].contains("/rustc")) {
        args.remove(1);
    }
    let wanted = std::env::var("NL_CRATES").unwrap_or_else(|_| "nundb,nun_db".to_string());
    let mut crate_name = String::new();
    let mut i = 0;
    while i < args.len() {
        if args[i] == "--crate-name" && i + 1 < args.len() {
            crate_name = args[i + 1].clone();
        }
        i += 1;
    }
    let is_target = !crate_name.is_empty() && wanted.split(',').any(|w| w == crate_name);
    // build scripts / proc-macros / probing invocations go straight through
    let out_dir = std::env::var("NL_OUT").unwrap_or_default();
    if is_target && !out_dir.is_empty() {
        if let Ok(extra) = std::env::var("NL_EXTRA_FLAGS") {
            for f in extra.split_whitespace() {
                args.push(f.to_string());
            }
        }
        let mut cb = Cb { out_dir, built: Vec::new(), built_adts: BTreeMap::new() };
        rustc_driver::run_compiler(&args, &mut cb);
    } else {
        let mut cb = Plain;
        rustc_driver::run_compiler(&args, &mut cb);
    }
}
