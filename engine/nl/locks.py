"""Lock analysis (family A) and panic census (family N) over the MIR facts.

Lock identity = 'Adt.field' of the RwLock / Mutex (class-level, instance-insensitive).
Per body: acquisitions, the blocks in which each guard is live, the calls made while holding.
Summaries (transitive over local callees and closures): locks acquired, may-panic sites.
"""
import json
from . import core
from .core import origins, callee, callee_decl, is_log

LOCK_FNS = {
    'std::sync::RwLock::read': 'R', 'std::sync::RwLock::write': 'W', 'std::sync::Mutex::lock': 'W',
}
UNWRAP_LIKE = ('std::result::Result::unwrap', 'std::result::Result::expect', 'std::option::Option::unwrap',
               'std::option::Option::expect')

SINGLETON_CLASSES = ('Databases.', 'ClusterState.')


def lock_id_of(body, operand):
    ids = set()
    for r in origins(body, operand):
        lf = [s for s in r[-1] if s[0] == 'f' and s[3] and not s[3].startswith('{closure}') and s[3] != '()']
        if lf:
            ids.add('%s.%s' % (lf[-1][3].split('::')[-1], lf[-1][2]))
        else:
            ids.add('?')
    return ids


class Acq:
    __slots__ = ('body', 'bi', 'ids', 'mode', 'guards', 'region', 'end_blocks', 'returned')

    def __init__(self, body, bi, ids, mode):
        self.body = body
        self.bi = bi
        self.ids = ids
        self.mode = mode
        self.guards = set()
        self.region = set()
        self.end_blocks = set()
        self.returned = False

    def loc(self):
        return self.body.loc(self.bi)


def _aliases(body, start_local):
    """locals that hold the guard: the lock call's Result, its unwrap/expect, and moves of it;
    also the payload binding of `match lock() { Ok(g) => … }`"""
    al = {start_local}
    changed = True
    while changed:
        changed = False
        for bi, b in enumerate(body.blocks):
            if b['cleanup']:
                continue
            for s in b['s']:
                if s['k'] != 'assign' or s['l'].get('p'):
                    continue
                r = s['r']
                if r['k'] == 'use':
                    o = r['o']
                    p = o.get('m') or o.get('c')
                    if p and p['l'] in al and s['l']['l'] not in al:
                        # whole move, or move of the Ok/Some payload
                        if all(e[0] in ('d', 'f') for e in p.get('p', ())):
                            al.add(s['l']['l'])
                            changed = True
            t = b['t']
            if t['k'] == 'call' and callee_decl(t) in UNWRAP_LIKE and t['args']:
                a = t['args'][0]
                p = a.get('m') or a.get('c')
                if p and not p.get('p') and p['l'] in al and not t['d'].get('p') and t['d']['l'] not in al:
                    al.add(t['d']['l'])
                    changed = True
    return al


def acquisitions(body, prog=None, _depth=0):
    out = []
    for bi, t in body.calls():
        d = callee_decl(t)
        if d not in LOCK_FNS:
            # a wrapper that returns the guard it took (`fn acquire_dbs_read_lock(&self) -> RwLockReadGuard<..>`): the lock is held
            # by the caller from the call on, exactly as if it had called read()/write()/lock() itself
            if prog is None or _depth > 2 or t['f'].get('ind'):
                continue
            cb = prog.bodies.get(callee(t))
            if cb is None or 'Guard<' not in cb.locals[0] or not cb.locals[0].startswith('std::sync::'):
                continue
            inner = [x for x in acquisitions(cb, prog, _depth + 1) if x.returned]
            if not inner:
                continue
            ids = set()
            for x in inner:
                ids |= set(x.ids)
            a = Acq(body, bi, ids, inner[0].mode)
        else:
            ids = lock_id_of(body, t['args'][0])
            a = Acq(body, bi, ids, LOCK_FNS[d])
        if t['d'].get('p') or t['t'] is None:
            out.append(a)
            continue
        a.guards = _aliases(body, t['d']['l'])
        # live region: from the successor of the call until a drop of a guard alias / a move
        # of the guard into the return place
        seen = set()
        st = [t['t']]
        while st:
            b = st.pop()
            if b in seen:
                continue
            seen.add(b)
            tt = body.term(b)
            ends = False
            if tt['k'] == 'drop':
                p = tt['p']
                if not p.get('p') and p['l'] in a.guards:
                    # the Result/Option wrapper of an already-moved guard is dropped as a no-op:
                    # only a drop of the innermost live alias ends the region.  Conservatively
                    # end on the *last* alias (highest in move chain) or any alias when no later
                    # alias is assigned from it.
                    if not _moved_from(body, p['l'], a.guards):
                        ends = True
            if tt['k'] == 'return':
                if 0 in a.guards:
                    a.returned = True
                ends = True
            if ends:
                a.end_blocks.add(b)
                continue
            st.extend(body.succ(b))
        a.region = seen
        if 0 in a.guards:
            a.returned = True
        out.append(a)
    return out


def _moved_from(body, local, aliases):
    """is `local` moved into another alias (then its own drop is a no-op)?"""
    for b in body.blocks:
        if b['cleanup']:
            continue
        for s in b['s']:
            if s['k'] == 'assign' and s['r']['k'] == 'use':
                o = s['r']['o']
                p = o.get('m')
                if p and p['l'] == local and not s['l'].get('p') and s['l']['l'] in aliases and s['l']['l'] != local:
                    return True
        t = b['t']
        if t['k'] == 'call' and callee_decl(t) in UNWRAP_LIKE and t['args']:
            p = t['args'][0].get('m')
            if p and not p.get('p') and p['l'] == local and not t['d'].get('p') and t['d']['l'] in aliases:
                return True
    return False


class LockModel:
    def __init__(self, prog):
        self.prog = prog
        self._acq = {}
        self._sum = None
        self._edges = None

    def acq(self, body):
        r = self._acq.get(body.id)
        if r is None:
            r = acquisitions(body, self.prog)
            self._acq[body.id] = r
        return r

    # ---- call graph helpers ----
    def callees(self, body):
        """local bodies that run when `body` runs: (bi, callee_body, via) — direct calls, closures
        created in body (assumed to run where created unless spawned), closures passed on"""
        out = []
        for bi, t in body.calls():
            n = callee(t)
            cb = self.prog.bodies.get(n)
            if cb is not None and not t['f'].get('ind'):
                out.append((bi, cb, 'call'))
        return out

    def closures_created(self, body):
        out = []
        for bi, bl in enumerate(body.blocks):
            if bl['cleanup']:
                continue
            for si, s in enumerate(bl['s']):
                if s['k'] == 'assign' and s['r']['k'] == 'agg' and s['r'].get('ak') in ('closure', 'coroutine'):
                    cb = self.prog.bodies.get(s['r']['def'])
                    if cb is not None:
                        out.append((bi, si, cb))
        return out

    def closure_use_blocks(self, body, bi, si):
        """call blocks of `body` that receive (a reference to) the closure created at (bi,si):
        the closure is assumed to run during those calls.  Returns [(call_bi, callee_decl)]"""
        dest = body.blocks[bi]['s'][si]['l']['l']
        # forward: locals derived from dest by ref/use/cast
        der = {dest}
        changed = True
        while changed:
            changed = False
            for b in body.blocks:
                if b['cleanup']:
                    continue
                for s in b['s']:
                    if s['k'] != 'assign' or s['l'].get('p'):
                        continue
                    r = s['r']
                    src = None
                    if r['k'] in ('use', 'cast'):
                        o = r['o']
                        p = o.get('m') or o.get('c')
                        if p:
                            src = p['l']
                    elif r['k'] == 'ref':
                        src = r['p']['l']
                    elif r['k'] == 'agg':
                        for o in r['ops']:
                            p = o.get('m') or o.get('c')
                            if p and p['l'] in der:
                                src = p['l']
                    if src in der and s['l']['l'] not in der:
                        der.add(s['l']['l'])
                        changed = True
        out = []
        for cbi, t in body.calls():
            for a in t['args']:
                p = a.get('m') or a.get('c')
                if p and p['l'] in der:
                    out.append((cbi, callee_decl(t)))
                    break
        return out

    # ---- summaries ----
    def summaries(self):
        """body id -> {'locks': {(id, mode)}, 'panics': [(body id, bi, desc)]} transitively
        (closures included where they are handed to a call; thread::spawn excluded)"""
        if self._sum is not None:
            return self._sum
        direct = {}
        edges = {}
        for b in self.prog.user_bodies():
            locks = set()
            for a in self.acq(b):
                for i in a.ids:
                    locks.add((i, a.mode))
            direct[b.id] = locks
            es = set()
            for bi, cb, via in self.callees(b):
                es.add(cb.id)
            for (bi, si, cb) in self.closures_created(b):
                uses = self.closure_use_blocks(b, bi, si)
                if any(d in ('std::thread::spawn',) for _, d in uses):
                    continue
                es.add(cb.id)
            edges[b.id] = es
        # fixpoint
        S = {k: set(v) for k, v in direct.items()}
        changed = True
        while changed:
            changed = False
            for k, es in edges.items():
                for e in es:
                    add = S.get(e, set()) - S[k]
                    if add:
                        S[k] |= add
                        changed = True
        self._sum = S
        self._edges_cg = edges
        return S

    def held_at(self, body, bi):
        """locks held (by acquisitions in this body) when the terminator of block bi runs"""
        out = []
        for a in self.acq(body):
            if bi in a.region and bi != a.bi:
                out.append(a)
        return out

    def order_edges(self):
        """(held lock id, acquired lock id) -> witness list [(body id, loc held, loc acquired, via)]"""
        if self._edges is not None:
            return self._edges
        S = self.summaries()
        E = {}
        for b in self.prog.user_bodies():
            acqs = self.acq(b)
            if not acqs:
                continue
            for a in acqs:
                for bi in a.region:
                    t = b.term(bi)
                    if t['k'] != 'call' or bi == a.bi:
                        continue
                    d = callee_decl(t)
                    inner = set()
                    via = None
                    if d in LOCK_FNS:
                        for i in lock_id_of(b, t['args'][0]):
                            inner.add((i, LOCK_FNS[d]))
                        via = 'direct'
                    else:
                        cb = self.prog.bodies.get(callee(t))
                        if cb is not None and not t['f'].get('ind'):
                            inner = S.get(cb.id, set())
                            via = cb.id
                        # closures passed to this call run inside it
                        for (cbi, csi, ccb) in self.closures_created(b):
                            if any(u == bi for u, _ in self.closure_use_blocks(b, cbi, csi)):
                                inner = inner | S.get(ccb.id, set())
                                via = via or ccb.id
                    for (i2, m2) in inner:
                        for i1 in a.ids:
                            E.setdefault((i1, i2), []).append(
                                {'body': b.id, 'held_at': a.loc(), 'held_mode': a.mode, 'acquired_at': b.loc(bi),
                                 'acq_mode': m2, 'via': via})
        self._edges = E
        return E


# --------------------------------------------------------------------------------------
# data dependence (backward slice)
# --------------------------------------------------------------------------------------

def controlling_switches(body, v, _cache={}):
    """switch blocks on which block v is control dependent (one successor can reach v, another cannot)"""
    from nl import core as _core
    key = (id(body), v)
    if key in _cache:
        return _cache[key]
    out = []
    # within one iteration: back edges are cut, otherwise every `continue` "reaches" v through the next iteration
    back = {(u, h) for u in body.reachable() for h in body.succ(u) if body.dominates(h, u)}
    for bi in body.reachable():
        t = body.term(bi)
        if t['k'] != 'switch':
            continue
        succ = [x for x in body.succ(bi) if not body.blocks[x].get('cleanup') and body.term(x)['k'] != 'unreachable']
        can = [v in _core.reachable_without(body, back, start=x) for x in succ]
        if any(can) and not all(can):
            out.append(bi)
    _cache[key] = out
    return out


def backward_slice(body, operand, _seen=None, control=False):
    """call blocks and params the value of `operand` transitively depends on (through every
    rvalue kind and through call arguments).  control=True: a local that is assigned in several blocks (the two arms of a
    `match` that yield `true` / `false`) also depends on the switches that decide which assignment runs."""
    seen_locals = set()
    calls = set()
    params = set()
    seen_sw = set()

    def visit_op(o):
        if 'k' in o or 'rt' in o:
            return
        p = o.get('c') or o.get('m')
        visit_local(p['l'])
        for e in p.get('p', ()):
            if e[0] == 'i':
                visit_local(e[1])

    def visit_local(l):
        if l in seen_locals:
            return
        seen_locals.add(l)
        if 1 <= l <= body.argc:
            params.add(l)
        dl_ = body.defs().get(l, []) + body.defs().get(('partial', l), [])
        if control and len({bi for (bi, _si, _k, _pl) in dl_}) > 1:
            for (bi, _si, _k, _pl) in dl_:
                for sw in controlling_switches(body, bi):
                    if sw not in seen_sw:
                        seen_sw.add(sw)
                        visit_op(body.term(sw)['o'])
        for (bi, si, kind, pl) in dl_:
            if kind == 'call':
                calls.add(bi)
                for a in pl['args']:
                    visit_op(a)
            else:
                rv = pl if 'k' in pl and pl['k'] != 'assign' else pl['r']
                k = rv['k']
                if k in ('use', 'cast', 'repeat'):
                    visit_op(rv['o'])
                elif k in ('ref', 'rawptr', 'discr'):
                    visit_local(rv['p']['l'])
                elif k == 'bin':
                    visit_op(rv['a'])
                    visit_op(rv['b'])
                elif k == 'un':
                    visit_op(rv['a'])
                elif k == 'agg':
                    for o in rv['ops']:
                        visit_op(o)
        # values written through &mut arguments: a local passed by &mut to a call may be
        # modified by it (e.g. Vec::retain, read()).  Treat calls taking &mut l as defs.
        for bi, t in body.calls():
            for a in t['args']:
                p = a.get('m') or a.get('c')
                if p and not p.get('p'):
                    # is that arg a &mut borrow of l ?
                    for (dbi, dsi, dk, dpl) in body.defs().get(p['l'], []):
                        if dk == 'assign' and dpl['k'] == 'ref' and dpl.get('mut') and dpl['p']['l'] == l:
                            if bi not in calls:
                                calls.add(bi)
                                for a2 in t['args']:
                                    visit_op(a2)
    visit_op(operand)
    return calls, params


# --------------------------------------------------------------------------------------
# A1: non-atomic read-modify-write of one entry
# --------------------------------------------------------------------------------------

READ_KINDS = {'map': ('map-read', 'map-bulk-read'), 'watch': ('watch-read', 'watch-bulk-read'),
              'pending': ('pending-read', 'pending-bulk-read')}
WRITE_KINDS = {'map': ('map-write', 'map-bulk-write'), 'watch': ('watch-write', 'watch-bulk-write'),
               'pending': ('pending-write', 'pending-bulk-write')}
LOCK_OF = {'map': 'Database.map', 'watch': 'Watchers.map', 'pending': 'Databases.pending_opps'}


def rmw_findings(m, body, tag):
    """non-atomic read-modify-write of one `tag` entry inside `body`:
    two *separate* critical sections of the lock, the earlier one reads an entry (or the whole
    collection), the later one writes the same entry (same symbolic key, or a key taken from the
    earlier result) with a value that depends on what the earlier section returned.
    -> list of dicts (site1, site2, key, why)"""
    L = LockModel(m.prog) if not hasattr(m, '_lockmodel') else m._lockmodel
    m._lockmodel = L
    ex = m.explorer()
    effs, raw = m.effects_from(body)
    lock = LOCK_OF[tag]
    own = [a for a in L.acq(body) if lock in a.ids]
    # group effects by the "section" they belong to, seen from `body`
    sections = {}   # section id -> {'reads': [...], 'writes': [...], 'bi': block in body, 'kind'}
    for ev, kind, info in effs:
        if kind in ('store', 'guarded-replace') and any(l == lock and md == 'W' for l, md in info.get('locks', ())):
            kind = WRITE_KINDS[tag][1]      # replacing the whole collection through the guard: a bulk write
            info = dict(info, key=None, _store=True)
        if kind not in READ_KINDS[tag] + WRITE_KINDS[tag]:
            continue
        if not any(l == lock for l, _ in info.get('locks', ())):
            continue
        if ev.chain:
            if ev.chain[0][0] != body.id:
                continue
            # the call site in body through which the effect was reached
            loc0 = ev.chain[0][1]
            cands = [bi for bi in body.reachable() if body.term(bi)['k'] == 'call' and body.loc(bi) == loc0]
            site = None
            for bi in cands:
                t = body.term(bi)
                nm = callee(t)
                if len(ev.chain) > 1 and ev.chain[1][0] == nm or (len(ev.chain) == 1 and ev.frame.body.id == nm):
                    site = bi
                elif ev.frame.body.kind == 'closure':
                    site = site if site is not None else bi
            if site is None and cands:
                site = cands[0]
            if site is None:
                continue
            # inside one of body's own sections of the same lock?  then it is part of that section
            holder = [a for a in own if site in a.region and site != a.bi]
            sid = ('own', holder[0].bi) if holder else ('call', site)
            sbi = holder[0].bi if holder else site
        else:
            holder = [a for a in own if ev.bi in a.region and ev.bi != a.bi]
            if not holder:
                continue
            sid = ('own', holder[0].bi)
            sbi = holder[0].bi
        s = sections.setdefault(sid, {'reads': [], 'writes': [], 'bi': sbi, 'sid': sid})
        (s['reads'] if kind in READ_KINDS[tag] else s['writes']).append((ev, kind, info))
    out = []
    secs = list(sections.values())
    for s1 in secs:
        if not s1['reads']:
            continue
        for s2 in secs:
            if s1 is s2 or not s2['writes']:
                continue
            # s2 after s1 on some path
            reach = body.reach_from([s1['bi']])
            if s2['bi'] not in reach:
                continue
            # results of section 1 as seen in body
            if s1['sid'][0] == 'call':
                res_calls = {s1['bi']}
            else:
                a = [x for x in own if x.bi == s1['sid'][1]][0]
                res_calls = {bi for bi in a.region if body.term(bi)['k'] == 'call'}
            for (ev2, k2, i2) in s2['writes']:
                key2 = i2.get('key') or frozenset()
                same = None
                for (ev1, k1, i1) in s1['reads']:
                    key1 = i1.get('key')
                    if i2.get('_store') and (key1 is None or k1.endswith('bulk-read')):
                        same = 'the whole collection is replaced by a value built from the earlier copy'
                        continue
                    if key1 is not None and key2 and (set(key1) & set(key2)):
                        same = 'same key %s' % sorted(ex.describe(v) for v in (set(key1) & set(key2)))
                    elif key1 is None or k1.endswith('bulk-read'):
                        # a copy of the whole collection was taken: any entry written later with
                        # data from that copy is a read-modify-write of that entry (dependence is
                        # checked below); a key rooted in a parameter is not from the copy
                        if key2 and all(v[0] in ('call', 'summary', 'agg') for v in key2):
                            same = 'entry taken from the earlier bulk copy'
                if not same:
                    # key derived from the earlier call's result (e.g. a field of the Response it returned)
                    for v in key2:
                        if v[0] in ('call',) and ex.frames[v[1]].body.id == body.id and v[2] in res_calls:
                            same = 'key taken from the earlier result'
                if not same:
                    continue
                # the written data depends on the earlier result?
                dep = False
                if s2['sid'][0] == 'call':
                    t2 = body.term(s2['bi'])
                    topf = ex.top_frame(body)
                    for a2 in t2['args']:
                        # the key argument itself does not count: the *data* written must depend on
                        # what the earlier section returned
                        av = ex.absvals(topf, a2)
                        if key2 and av and set(av) <= set(key2):
                            continue
                        calls, params = backward_slice(body, a2)
                        if calls & res_calls:
                            dep = True
                else:
                    # direct section: the mutating call's value operands
                    if i2.get('_store') and ev2.frame.body.id == body.id and ev2.extra is not None:
                        si2, st2 = ev2.extra
                        rv2 = st2['r']
                        ops2 = [rv2['o']] if rv2['k'] in ('use', 'cast') else rv2.get('ops', [])
                        for a2 in ops2:
                            calls, params = backward_slice(body, a2)
                            if calls & res_calls:
                                dep = True
                    elif ev2.frame.body.id == body.id and ev2.term is not None:
                        topf = ex.top_frame(body)
                        for a2 in ev2.term['args'][1:]:
                            av = ex.absvals(topf, a2)
                            if key2 and av and set(av) <= set(key2):
                                continue      # the key itself: the *data* written must depend on the earlier read
                            calls, params = backward_slice(body, a2)
                            if calls & res_calls:
                                dep = True
                    else:
                        a = [x for x in own if x.bi == s2['sid'][1]][0]
                        for bi in a.region:
                            t = body.term(bi)
                            if t['k'] == 'call':
                                for a2 in t['args']:
                                    calls, params = backward_slice(body, a2)
                                    if calls & res_calls:
                                        dep = True
                if dep:
                    out.append({'first': body.loc(s1['bi']), 'second': body.loc(s2['bi']), 'same': same,
                                'first_fn': callee(body.term(s1['bi'])).split('::')[-1] if body.term(s1['bi'])['k'] == 'call' else '?',
                                'second_fn': callee(body.term(s2['bi'])).split('::')[-1] if body.term(s2['bi'])['k'] == 'call' else '?',
                                'write_at': ev2.loc(), 'kind': k2})
    # dedupe
    seen = set()
    res = []
    for o in out:
        k = (o['first_fn'], o['second_fn'], o['kind'])
        if k in seen:
            continue
        seen.add(k)
        res.append(o)
    return res
