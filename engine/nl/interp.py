"""Context-sensitive abstract exploration of the call graph with symbolic access paths.

A *frame* is (body, env) where env maps parameter / capture indices to sets of AbsVals.
AbsVals are symbolic values expressed relative to the exploration's top frame:

  ('const', json, path)            a constant (json text of the const fact)
  ('top', i, path)                 parameter i of the top frame
  ('call', fid, bi, path)          result of the (non look-through, non-inlinable) call at block
                                   bi of frame fid
  ('agg', fid, bi, si, path)       an aggregate built in frame fid (path = steps that could not be
                                   applied to it)
  ('closure', def, fid)            a closure created in frame fid
  ('fmt', fid, bi)                 a string formatted from the template at (fid, bi)
  ('unknown', why, path)

`path` is a tuple of projection steps: ('f', idx, field_name, adt) | ('d', Variant) | ('idx',).

The explorer walks every call reachable from a start frame, resolving callee bodies,
closure invocations through `dyn Fn` parameters and thread/iterator adaptors, and reports
*events* (calls to functions without a local body, plus a few MIR-level facts) together with
the guard stack and the call chain that lead to them.
"""
import json
from . import core
from .core import origins, place_origins, callee, callee_decl, is_log

MAX_DEPTH = 14
MAX_SET = 24

# std adaptors that invoke a closure argument (arg index of the closure)
CLOSURE_ADAPTORS = {
    'std::iter::Iterator::map': 1, 'std::iter::Iterator::filter': 1, 'std::iter::Iterator::for_each': 1,
    'std::iter::Iterator::fold': 2, 'std::iter::Iterator::any': 1, 'std::iter::Iterator::all': 1,
    'std::iter::Iterator::filter_map': 1, 'std::iter::Iterator::find': 1, 'std::iter::Iterator::position': 1,
    'std::vec::Vec::retain': 1, 'std::thread::spawn': 0, 'std::option::Option::map': 1,
    'std::option::Option::and_then': 1, 'std::option::Option::unwrap_or_else': 1,
    'std::result::Result::map': 1, 'std::result::Result::map_err': 1,
    'std::result::Result::and_then': 1, 'std::result::Result::unwrap_or_else': 1,
    'std::slice::sort_by': 1, 'std::iter::Iterator::flat_map': 1,
    'std::iter::Iterator::take_while': 1, 'std::iter::Iterator::skip_while': 1,
    'std::iter::Iterator::max_by': 1, 'std::iter::Iterator::min_by': 1,
    'std::collections::HashMap::retain': 1,
    'timer::Timer::schedule_repeating': 2,
    'futures::executor::block_on': 0, 'futures::futures_executor::block_on': 0,
    'futures::futures_executor::local_pool::block_on': 0,
}


# element-of style calls: the result is (a reference to) an element of / an iterator over arg0.
# Looked through when tracing where a key / sender / entry comes from.
ELEM_THROUGH = frozenset((
    'std::iter::Iterator::next', 'std::iter::IntoIterator::into_iter', 'std::slice::iter',
    'std::vec::Vec::iter', 'std::slice::last', 'std::slice::first', 'std::iter::Iterator::last',
    'std::collections::HashMap::iter', 'std::collections::HashMap::keys', 'std::collections::HashMap::values',
    'std::iter::Iterator::enumerate', 'std::iter::Iterator::rev', 'std::iter::Iterator::peekable',
    'std::slice::iter_mut', 'std::ops::Index::index', 'std::iter::Iterator::cloned',
))


ELEMENT_ADAPTORS = frozenset((
    'std::iter::Iterator::map', 'std::iter::Iterator::filter', 'std::iter::Iterator::for_each',
    'std::iter::Iterator::any', 'std::iter::Iterator::all', 'std::iter::Iterator::filter_map',
    'std::iter::Iterator::find', 'std::iter::Iterator::position', 'std::vec::Vec::retain',
    'std::iter::Iterator::flat_map', 'std::iter::Iterator::take_while', 'std::iter::Iterator::skip_while',
    'std::option::Option::map', 'std::option::Option::and_then',
))


class Frame:
    __slots__ = ('id', 'body', 'env', 'cap', 'key')

    def __init__(self, fid, body, env, cap, key):
        self.id = fid
        self.body = body
        self.env = env      # param idx -> frozenset(AbsVal)
        self.cap = cap      # capture idx -> frozenset(AbsVal)
        self.key = key


class Event:
    __slots__ = ('frame', 'bi', 'name', 'decl', 'term', 'guards', 'chain', 'kind', 'extra')

    def __init__(self, frame, bi, name, decl, term, guards, chain, kind='call', extra=None):
        self.frame = frame
        self.bi = bi
        self.name = name
        self.decl = decl
        self.term = term
        self.guards = guards
        self.chain = chain
        self.kind = kind
        self.extra = extra

    def loc(self):
        return self.frame.body.loc(self.bi)

    def where(self):
        return '%s @ %s' % (self.frame.body.id, self.loc())

    def chain_str(self):
        return ' -> '.join('%s@%s' % (b.split('::')[-1] if '{closure' not in b else '::'.join(b.split('::')[-2:]), l)
                           for b, l in self.chain)


class Explorer:
    def __init__(self, prog, guard_recognizer=None, stop_at=None, skip_log=True, summaries=None):
        self.prog = prog
        self.frames = []
        self.frame_index = {}
        self.guard_recognizer = guard_recognizer   # f(callee_body) -> guard spec or None
        self.stop_at = stop_at or (lambda name: False)
        self.skip_log = skip_log
        self._ret_memo = {}
        self._walk_memo = {}
        self._inline_admin = {}
        self._stack = []
        self.summaries = summaries or {}   # body id -> tag: calls whose result is kept symbolic

    # ---- frames ----
    def frame(self, body, env=None, cap=None):
        env = {k: frozenset(v) for k, v in (env or {}).items()}
        cap = {k: frozenset(v) for k, v in (cap or {}).items()}
        key = (body.id, tuple(sorted(env.items(), key=lambda kv: kv[0])),
               tuple(sorted(cap.items(), key=lambda kv: kv[0])))
        fid = self.frame_index.get(key)
        if fid is None:
            fid = len(self.frames)
            self.frames.append(Frame(fid, body, env, cap, key))
            self.frame_index[key] = fid
        return self.frames[fid]

    def top_frame(self, body):
        env = {i: frozenset([('top', i, ())]) for i in range(1, body.argc + 1)}
        return self.frame(body, env, {})

    # ---- abstract values ----
    def absvals(self, fr, operand, depth=0):
        out = set()
        for r in origins(fr.body, operand, extra_through=ELEM_THROUGH):
            out |= self.resolve(fr, r, depth)
        return self._cap(out)

    def place_absvals(self, fr, place, depth=0):
        out = set()
        for r in place_origins(fr.body, place, extra_through=ELEM_THROUGH):
            out |= self.resolve(fr, r, depth)
        return self._cap(out)

    def _cap(self, s):
        if len(s) > MAX_SET:
            s = set(list(sorted(s, key=repr))[:MAX_SET])
            s.add(('unknown', 'set-too-large', ()))
        return frozenset(s)

    def extend(self, v, path, depth=0):
        if not path:
            return {v}
        k = v[0]
        if k == 'agg':
            _, fid, bi, si, p0 = v
            full = p0 + path
            fr = self.frames[fid]
            rv = fr.body.blocks[bi]['s'][si]['r']
            r = core._apply_path_to_agg(rv, full)
            if r == 'mismatch':
                return set()
            if r is None:
                return {('agg', fid, bi, si, full)}
            ops, rest = r
            if not isinstance(ops, list):
                ops = [ops]
            out = set()
            for op in ops:
                for a in self.absvals(fr, op, depth + 1):
                    out |= self.extend(a, rest, depth + 1)
            return out
        if k == 'closure' or k == 'fmt':
            return {v}
        return {v[:-1] + (v[-1] + path,)}

    def resolve(self, fr, root, depth=0):
        k = root[0]
        if depth > 40:
            return {('unknown', 'depth', ())}
        if k == 'param':
            _, i, path = root
            out = set()
            for v in fr.env.get(i, [('unknown', 'param%d-of-%s' % (i, fr.body.id), ())]):
                out |= self.extend(v, path, depth)
            return out
        if k == 'capture':
            _, i, path = root
            out = set()
            for v in fr.cap.get(i, [('unknown', 'capture%d-of-%s' % (i, fr.body.id), ())]):
                out |= self.extend(v, path, depth)
            return out
        if k == 'const':
            return {('const', root[1], root[2])}
        if k == 'agg':
            return {('agg', fr.id, root[1], root[2], root[3])}
        if k == 'closure':
            return {('closure', root[1], fr.id)}
        if k == 'call':
            _, bi, path = root
            t = fr.body.term(bi)
            name = callee(t)
            decl = callee_decl(t)
            # formatted strings
            if decl.startswith('std::fmt::Arguments') or decl in ('std::fmt::format',):
                fm = None
                if decl == 'std::fmt::format':
                    fms, _ = core.fmt_of_value(fr.body, t['args'][0])
                    if fms:
                        return {('fmt', fr.id, fms[0].bi)}
                else:
                    return {('fmt', fr.id, bi)}
            if name in self.summaries:
                return {('summary', self.summaries[name], fr.id, bi, path)}
            cb = self.prog.bodies.get(name)
            if cb is not None and not t['f'].get('ind') and cb.kind in ('fn', 'method') and depth < 30:
                out = set()
                for v in self.ret_abs(fr, bi, cb, depth + 1):
                    out |= self.extend(v, path, depth)
                if out:
                    return out
            return {('call', fr.id, bi, path)}
        if k in ('discr', 'arith'):
            return {(k, fr.id, root[1], root[2], root[3])}
        return {('unknown', root[1] if len(root) > 1 else k, root[-1] if isinstance(root[-1], tuple) else ())}

    def callee_env(self, fr, t, cb, depth=0):
        env = {}
        for i, a in enumerate(t['args']):
            if i + 1 <= cb.argc:
                env[i + 1] = self.absvals(fr, a, depth + 1)
        return env

    def ret_abs(self, fr, bi, cb, depth=0):
        t = fr.body.term(bi)
        env = self.callee_env(fr, t, cb, depth)
        cfr = self.frame(cb, env, {})
        memo = self._ret_memo.get(cfr.id)
        if memo is not None:
            return memo
        self._ret_memo[cfr.id] = frozenset([('call', fr.id, bi, ())])  # recursion guard
        out = set()
        for r in place_origins(cb, {'l': 0}, extra_through=ELEM_THROUGH):
            out |= self.resolve(cfr, r, depth + 1)
        out = self._cap(out)
        self._ret_memo[cfr.id] = out
        return out

    # ---- description helpers ----
    def describe(self, v, depth=0):
        k = v[0]
        ps = lambda path: ''.join('.%s' % (s[2] if s[0] == 'f' else ('<%s>' % s[1] if s[0] == 'd' else '[]')) for s in path)
        if k == 'const':
            c = json.loads(v[1])
            val = c.get('v', c.get('variant', c.get('fn', c.get('item', '?'))))
            if isinstance(val, dict):
                val = val.get('s', val.get('b'))
            return 'const(%r)%s' % (val, ps(v[2]))
        if k == 'top':
            return 'arg%d%s' % (v[1], ps(v[2]))
        if k == 'call':
            fr = self.frames[v[1]]
            return 'ret(%s)%s' % (callee(fr.body.term(v[2])).split('::')[-1], ps(v[3]))
        if k == 'agg':
            fr = self.frames[v[1]]
            rv = fr.body.blocks[v[2]]['s'][v[3]]['r']
            return 'agg(%s)%s' % (rv.get('variant') or rv.get('ak'), ps(v[4]))
        if k == 'closure':
            return 'closure(%s)' % v[1]
        if k == 'summary':
            return '%s(in %s)%s' % (v[1], self.frames[v[2]].body.id.split('::')[-1], ps(v[4]))
        if k == 'fmt':
            fr = self.frames[v[1]]
            f = core.fmt_at(fr.body, v[2])
            return 'fmt(%r)' % (f.text() if f else '?')
        return '%s(%s)' % (k, v[1])

    # ---- strings ----
    def string_shape(self, v, depth=0):
        """abstract shape of a string AbsVal: list of segments ('lit', s) | ('val', AbsVal-set)
        or None when nothing is known"""
        if depth > 6:
            return None
        k = v[0]
        if k == 'const':
            c = json.loads(v[1])
            val = c.get('v')
            if isinstance(val, dict) and 's' in val and not v[2]:
                return [('lit', val['s'])]
            return None
        if k == 'fmt':
            fr = self.frames[v[1]]
            f = core.fmt_at(fr.body, v[2])
            if f is None:
                return None
            segs = []
            for p in f.pieces:
                if p[0] == 'lit':
                    segs.append(('lit', p[1]))
                else:
                    if p[1] is None:
                        segs.append(('val', frozenset()))
                        continue
                    vals = self.absvals(fr, p[1])
                    # a single constant / nested fmt argument is expanded in place
                    if len(vals) == 1:
                        sub = self.string_shape(next(iter(vals)), depth + 1)
                        if sub is not None:
                            segs.extend(sub)
                            continue
                    segs.append(('val', vals, p[2]))
            # merge literals
            out = []
            for s in segs:
                if out and s[0] == 'lit' and out[-1][0] == 'lit':
                    out[-1] = ('lit', out[-1][1] + s[1])
                else:
                    out.append(s)
            return out
        return None

    def literal_prefix(self, v):
        sh = self.string_shape(v)
        if not sh:
            return None, False
        if sh[0][0] == 'lit':
            return sh[0][1], len(sh) == 1
        return '', False

    # ---- walking ----
    def walk(self, fr, on_event, guards=(), chain=(), depth=0, block_filter=None):
        """visit every call site reachable from frame fr (optionally only blocks in
        block_filter), descending into local callees and closures."""
        if depth > MAX_DEPTH:
            on_event(Event(fr, 0, '<depth-bound>', '<depth-bound>', None, guards, chain, kind='bound'))
            return
        body = fr.body
        reach = body.reachable()
        inline = self.inline_admin_regions(body)
        for bi in sorted(reach):
            if block_filter is not None and bi not in block_filter:
                continue
            t = body.term(bi)
            g = guards
            for (region, tag) in inline:
                if bi in region:
                    g = g + (tag,)
            for si, st in enumerate(body.blocks[bi]['s']):
                if st['k'] == 'assign' and st['l'].get('p') and st['l']['p'][0][0] == '*':
                    on_event(Event(fr, bi, '<store>', '<store>', None, g, chain, kind='store', extra=(si, st)))
            if t['k'] == 'assert':
                if self.skip_log and is_log(t):
                    continue
                on_event(Event(fr, bi, '<assert:%s>' % t['msg'], '<assert>', t, g, chain, kind='assert'))
                continue
            if t['k'] != 'call':
                continue
            if self.skip_log and is_log(t):
                continue
            self._visit_call(fr, bi, t, on_event, g, chain, depth)

    def inline_admin_regions(self, body):
        r = self._inline_admin.get(body.id)
        if r is not None:
            return r
        out = []
        for bi in body.reachable():
            t = body.term(bi)
            if t['k'] != 'switch' or 'c' not in t['o'] and 'm' not in t['o']:
                continue
            isadm = False
            for rt in origins(body, t['o'], stop_at_calls=True):
                if rt[0] == 'call':
                    ct = body.term(rt[1])
                    n = callee(ct)
                    if n.endswith('bo::Client::is_admin_auth'):
                        isadm = True
                    elif core.is_atomic_load(ct) and ct['args']:
                        for r2 in origins(body, ct['args'][0]):
                            if any(s[0] == 'f' and s[2] == 'auth' and s[3].endswith('bo::Client') for s in r2[-1]):
                                isadm = True
            if not isadm:
                continue
            # bool switch: targets [[0, false_bb]], else = true_bb
            tr = t['else']
            fl = [tb for v, tb in t['targets'] if str(v) == '0']
            if not fl or tr in fl:
                continue
            region = {b for b in body.reachable() if body.dominates(tr, b)}
            out.append((region, ('admin-inline', body.id)))
        self._inline_admin[body.id] = out
        return out

    def closure_defs(self, fr, operand):
        out = []
        for v in self.absvals(fr, operand):
            if v[0] == 'closure':
                out.append(v)
        return out

    def closure_frame(self, v, call_fr=None, arg_ops=None, arg_vals=None):
        """frame for invoking closure AbsVal v = ('closure', def, fid)"""
        _, cdef, fid = v
        cb = self.prog.bodies.get(cdef)
        if cb is None:
            return None
        cfr = self.frames[fid]
        site = self.prog.closure_site_in(cdef, cfr.body.id)
        cap = {}
        if site is not None:
            crb, cbi, csi, ops = site
            if cfr.body.id == crb.id:
                for i, op in enumerate(ops):
                    cap[i] = self.absvals(cfr, op)
        env = {}
        if arg_vals:
            for i, vs in arg_vals.items():
                env[i] = vs
        return self.frame(cb, env, cap)

    def _visit_call(self, fr, bi, t, on_event, guards, chain, depth):
        body = fr.body
        name = callee(t)
        decl = callee_decl(t)
        here = chain + ((body.id, body.loc(bi)),)
        f = t['f']
        # 1. closure / dyn Fn invocation
        if decl in ('std::ops::Fn::call', 'std::ops::FnMut::call_mut', 'std::ops::FnOnce::call_once') \
                or f.get('ind'):
            target_op = t['args'][0] if not f.get('ind') else f.get('op')
            handled = False
            if target_op is not None:
                vals = self.absvals(fr, target_op)
                for v in vals:
                    if v[0] == 'closure':
                        argvals = {}
                        if not f.get('ind') and len(t['args']) > 1:
                            # args are passed as a tuple
                            tup = self.absvals(fr, t['args'][1])
                            cb = self.prog.bodies.get(v[1])
                            if cb is not None:
                                for pi in range(2, cb.argc + 1):
                                    s = set()
                                    for tv in tup:
                                        s |= self.extend(tv, (('f', pi - 2, str(pi - 2), '()'),))
                                    argvals[pi] = frozenset(s)
                        cfr = self.closure_frame(v, arg_vals=argvals)
                        if cfr is not None:
                            handled = True
                            self._descend(cfr, on_event, guards, here, depth)
                    elif v[0] == 'const':
                        c = json.loads(v[1])
                        fn = c.get('fn') or c.get('fnptr')
                        cb = self.prog.bodies.get(fn) if fn else None
                        if cb is not None:
                            handled = True
                            env = {}
                            if f.get('ind'):
                                for i, a in enumerate(t['args']):
                                    env[i + 1] = self.absvals(fr, a)
                            self._descend(self.frame(cb, env, {}), on_event, guards, here, depth)
            if not handled:
                on_event(Event(fr, bi, name if not f.get('ind') else '<indirect>', decl, t, guards, chain,
                               kind='indirect'))
            return
        if self.stop_at(name):
            on_event(Event(fr, bi, name, decl, t, guards, chain, kind='stop'))
            return
        cb = self.prog.bodies.get(name)
        if cb is not None and cb.kind in ('fn', 'method'):
            env = self.callee_env(fr, t, cb)
            cfr = self.frame(cb, env, {})
            g2 = guards
            spec = self.guard_recognizer(cb) if self.guard_recognizer else None
            if spec is not None:
                on_event(Event(fr, bi, name, decl, t, guards, chain, kind='guard-call', extra=spec))
                self._descend_guard(cfr, spec, fr, t, on_event, guards, here, depth)
                return
            on_event(Event(fr, bi, name, decl, t, guards, chain, kind='local-call'))
            self._descend(cfr, on_event, g2, here, depth)
            return
        # 2. std adaptors invoking closures
        on_event(Event(fr, bi, name, decl, t, guards, chain, kind='call'))
        ai = CLOSURE_ADAPTORS.get(decl)
        cands = [ai] if ai is not None else []
        if ai is None:
            # any closure-typed argument passed to a non-local function is assumed to run
            cands = range(len(t['args']))
        for i in cands:
            if i >= len(t['args']):
                continue
            for v in self.closure_defs(fr, t['args'][i]):
                argvals = None
                if decl in ELEMENT_ADAPTORS and i == 1 and t['args']:
                    # the closure's argument is an element of the receiver (iterator / collection)
                    argvals = {2: self.absvals(fr, t['args'][0])}
                cfr = self.closure_frame(v, arg_vals=argvals)
                if cfr is not None:
                    self._descend(cfr, on_event, guards, here, depth)
        # coroutines created here and awaited/blocked on are walked when created: see below

    def _descend(self, cfr, on_event, guards, chain, depth):
        # recursion guard on (frame, guards)
        key = (cfr.id, guards)
        if any(c == key for c in self._stack):
            return
        self._stack.append(key)
        try:
            self.walk(cfr, on_event, guards, chain, depth + 1)
        finally:
            self._stack.pop()

    def _descend_guard(self, gfr, spec, call_fr, t, on_event, guards, chain, depth):
        """walk a guard function: its own calls are tagged ('in-guard', name); the closure it
        invokes is tagged with the guard entry (kind, key absvals, perm absvals)."""
        gname = gfr.body.id
        keyv = frozenset()
        permv = frozenset()
        if spec.get('key_param') is not None:
            keyv = gfr.env.get(spec['key_param'], frozenset())
        if spec.get('perm_param') is not None:
            permv = gfr.env.get(spec['perm_param'], frozenset())
        entry = (spec['kind'], gname, keyv, permv)
        inner_guards = guards + (('in-guard', gname),)
        body = gfr.body
        key = (gfr.id, guards)
        if any(c == key for c in self._stack):
            return
        self._stack.append(key)
        try:
            for bi in sorted(body.reachable()):
                tt = body.term(bi)
                if tt['k'] != 'call' or (self.skip_log and is_log(tt)):
                    continue
                decl = callee_decl(tt)
                here = chain + ((body.id, body.loc(bi)),)
                if decl in ('std::ops::Fn::call', 'std::ops::FnMut::call_mut', 'std::ops::FnOnce::call_once'):
                    # the guarded closure
                    vals = self.absvals(gfr, tt['args'][0])
                    done = False
                    for v in vals:
                        if v[0] == 'closure':
                            argvals = {}
                            cb = self.prog.bodies.get(v[1])
                            if cb is not None and len(tt['args']) > 1:
                                tup = self.absvals(gfr, tt['args'][1])
                                for pi in range(2, cb.argc + 1):
                                    s = set()
                                    for tv in tup:
                                        s |= self.extend(tv, (('f', pi - 2, str(pi - 2), '()'),))
                                    argvals[pi] = frozenset(s)
                            cfr = self.closure_frame(v, arg_vals=argvals)
                            if cfr is not None:
                                done = True
                                self._descend(cfr, on_event, guards + (entry,), here, depth + 1)
                    if not done:
                        on_event(Event(gfr, bi, '<indirect>', decl, tt, guards + (entry,), chain, kind='indirect'))
                    continue
                # nested guard or ordinary call inside the guard
                name = callee(tt)
                cb = self.prog.bodies.get(name)
                if cb is not None and cb.kind in ('fn', 'method'):
                    spec2 = self.guard_recognizer(cb) if self.guard_recognizer else None
                    env = self.callee_env(gfr, tt, cb)
                    cfr = self.frame(cb, env, {})
                    if spec2 is not None:
                        # the closure is handed on: inner guard entries stack on top of ours
                        self._descend_guard(cfr, spec2, gfr, tt, on_event, guards + (entry,), here, depth + 1)
                    else:
                        on_event(Event(gfr, bi, name, decl, tt, inner_guards, chain, kind='local-call'))
                        self._descend(cfr, on_event, inner_guards, here, depth + 1)
                else:
                    on_event(Event(gfr, bi, name, decl, tt, inner_guards, chain, kind='call'))
        finally:
            self._stack.pop()
